#!/bin/sh
# usage: seedtest.sh <patch> <check ids...> : applies a seeded change to /repo, runs the checks, reverts
patch="$1"; shift
cd /repo && git diff --quiet || { echo "repo dirty"; exit 2; }
git -C /repo apply "$patch" || { echo "patch does not apply"; exit 2; }
for c in "$@"; do
  echo "=== $c on $(basename $(dirname $patch))"
  (cd /verif && ./check $c 2>&1 | grep -E "VIOLATION|KNOWN|TOOL-ERROR|quick:|clause=" | head -12)
done
git -C /repo checkout -- .
git -C /repo status --short | head -3
