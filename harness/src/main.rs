//! lexrun: runs sas-lexer on case files and dumps everything observable as ndjson.
//!
//! Input  (ndjson): {"id": "...", "src": "..."}
//! Output (ndjson): one record per case, see `run_case`.
//!
//! Built in several variants (debug/release, with/without macro_sep, with/without the
//! verification guard, stable/nightly); the record format is the same for all.

use std::io::{BufRead, BufWriter, Write};
use std::panic::{catch_unwind, AssertUnwindSafe};
use std::sync::atomic::{AtomicU64, Ordering};
use std::sync::{Arc, Mutex};

use sas_lexer::error::ErrorInfo;
use sas_lexer::{LexResult, Payload, TokenizedBuffer};
use serde_json::{json, Map, Value};

struct Opts {
    input: String,
    output: String,
    events: bool,
    chars: bool,
    threads: usize,
    budget_mul: u64,
    budget_add: u64,
    /// permute case order per thread and lex every case on every thread (C19)
    all_on_all: bool,
    /// single-threaded: copy every source into one reused buffer before lexing it, so that consecutive
    /// sources live at the same address (a call history of a caller that reuses its read buffer, C19)
    reuse: bool,
}

fn parse_args() -> Opts {
    let mut o = Opts {
        input: String::new(),
        output: String::new(),
        events: false,
        chars: false,
        threads: 1,
        budget_mul: 64,
        budget_add: 256,
        all_on_all: false,
        reuse: false,
    };
    let mut it = std::env::args().skip(1);
    while let Some(a) = it.next() {
        match a.as_str() {
            "--in" => o.input = it.next().expect("--in path"),
            "--out" => o.output = it.next().expect("--out path"),
            "--events" => o.events = true,
            "--chars" => o.chars = true,
            "--threads" => o.threads = it.next().expect("n").parse().expect("int"),
            "--budget-mul" => o.budget_mul = it.next().expect("n").parse().expect("int"),
            "--budget-add" => o.budget_add = it.next().expect("n").parse().expect("int"),
            "--all-on-all" => o.all_on_all = true,
            "--reuse" => o.reuse = true,
            other => {
                eprintln!("unknown argument {other}");
                std::process::exit(2);
            }
        }
    }
    if o.input.is_empty() || o.output.is_empty() {
        eprintln!("usage: lexrun --in cases.ndjson --out out.ndjson [--events] [--chars] [--threads N]");
        std::process::exit(2);
    }
    o
}

/// Class of a character for the TLA+ side. ASCII is classified in TLA+ itself (0 here).
/// 1 = white space, 2 = XID_Start, 3 = XID_Continue only, 4 = other,
/// 5 = U+00AC, 6 = U+00A6, 7 = U+2218, 8 = U+FEFF; U+000B/U+000C get 1 (TLA+ cannot spell them)
fn char_class(c: char) -> u8 {
    if c == '\u{b}' || c == '\u{c}' {
        1
    } else if c == '\u{ac}' {
        5
    } else if c == '\u{a6}' {
        6
    } else if c == '\u{2218}' {
        7
    } else if c == '\u{feff}' {
        8
    } else if c.is_ascii() {
        0
    } else if c.is_whitespace() {
        1
    } else if unicode_ident::is_xid_start(c) {
        2
    } else if unicode_ident::is_xid_continue(c) {
        3
    } else {
        4
    }
}

fn digits_of(s: &str) -> Value {
    Value::Array(
        s.bytes()
            .filter(u8::is_ascii_digit)
            .map(|b| json!(b - b'0'))
            .collect(),
    )
}

/// Exact decimal expansion of a finite non-negative f64 as (digits, scale):
/// value = 0.d1 d2 ... dn * 10^scale, no leading/trailing zeros (0 -> ([], 0)).
fn exact_decimal(v: f64) -> (Vec<u8>, i32) {
    if v == 0.0 {
        return (vec![], 0);
    }
    // Rust prints f64 exactly when enough precision is requested
    let s = format!("{:.1100}", v);
    let (ip, fp) = s.split_once('.').unwrap_or((&s, ""));
    let mut digs: Vec<u8> = ip.bytes().chain(fp.bytes()).map(|b| b - b'0').collect();
    let mut scale = ip.len() as i32;
    // strip leading zeros
    let lead = digs.iter().take_while(|&&d| d == 0).count();
    digs.drain(..lead);
    scale -= lead as i32;
    while digs.last() == Some(&0) {
        digs.pop();
    }
    (digs, scale)
}

fn float_json(v: f64) -> Value {
    let mut m = Map::new();
    m.insert("bits".into(), json!(format!("{:016x}", v.to_bits())));
    m.insert("fin".into(), json!(v.is_finite()));
    m.insert("neg".into(), json!(v.is_sign_negative() && v != 0.0));
    if v.is_finite() && v >= 0.0 {
        let (d, s) = exact_decimal(v);
        m.insert("d".into(), json!(d));
        m.insert("s".into(), json!(s));
        // neighbours
        let bits = v.to_bits();
        let up = f64::from_bits(bits + 1);
        if up.is_finite() {
            let (d, s) = exact_decimal(up);
            m.insert("ud".into(), json!(d));
            m.insert("us".into(), json!(s));
            m.insert("uinf".into(), json!(false));
        } else {
            m.insert("ud".into(), json!([]));
            m.insert("us".into(), json!(0));
            m.insert("uinf".into(), json!(true));
        }
        if bits > 0 {
            let (d, s) = exact_decimal(f64::from_bits(bits - 1));
            m.insert("ld".into(), json!(d));
            m.insert("ls".into(), json!(s));
            m.insert("lnone".into(), json!(false));
        } else {
            m.insert("ld".into(), json!([]));
            m.insert("ls".into(), json!(0));
            m.insert("lnone".into(), json!(true));
        }
        m.insert("even".into(), json!(bits & 1 == 0));
    }
    Value::Object(m)
}

fn payload_json(p: Payload, m: &mut Map<String, Value>) {
    match p {
        Payload::None => {
            m.insert("pk".into(), json!("n"));
        }
        Payload::Integer(i) => {
            m.insert("pk".into(), json!("i"));
            m.insert("pi".into(), digits_of(&i.to_string()));
            m.insert("pis".into(), json!(i.to_string()));
        }
        Payload::Float(f) => {
            m.insert("pk".into(), json!("f"));
            m.insert("pf".into(), float_json(f));
        }
        Payload::StringLiteral(s, e) => {
            m.insert("pk".into(), json!("s"));
            m.insert("ps".into(), json!(s));
            m.insert("pe".into(), json!(e));
        }
    }
}

fn chars_json(s: &str) -> Value {
    Value::Array(s.chars().map(|c| json!(c.to_string())).collect())
}

fn err_json(e: &ErrorInfo) -> Value {
    json!({
        "k": e.error_kind().to_string(),
        "code": e.error_kind() as u16,
        "b": e.at_byte_offset(),
        "c": e.at_char_offset(),
        "l": e.on_line(),
        "col": e.at_column(),
        "lt": e.last_token().map_or(-1i64, |t| i64::from(t.get())),
    })
}

#[cfg(sas_lexer_verif)]
mod ev {
    use super::*;
    use sas_lexer::verif::{CkptOp, ConfigView, IterEvent, ModeView, Phase, TokView};

    pub fn mode_json(m: &ModeView) -> Value {
        json!({"k": m.kind, "a": m.a, "b": m.b, "n": m.n, "p": m.pnl})
    }

    pub fn config_json(c: &ConfigView) -> Value {
        json!({
            "modes": c.modes.iter().map(mode_json).collect::<Vec<_>>(),
            "ck": c.ckpt.map_or(json!({"set": false, "b": 0, "c": 0, "tb": 0, "ml": 0, "nt": 0, "nl": 0, "ns": 0}), |k| json!({
                "set": true, "b": k.byte, "c": k.chr, "tb": k.tok_byte, "ml": k.mode_len,
                "nt": k.ntok, "nl": k.nline, "ns": k.nlit})),
            "pend": c.pend.iter().map(|&b| u8::from(b)).collect::<Vec<_>>(),
            "nest": c.nest,
            "lt": c.last_tok.map_or_else(|| "None".to_string(), |t| t.to_string()),
        })
    }

    fn tok_json(t: &TokView) -> Value {
        let mut m = Map::new();
        m.insert("ty".into(), json!(t.ty.to_string()));
        m.insert("ch".into(), json!(t.channel.to_string()));
        m.insert("b".into(), json!(t.byte));
        m.insert("c".into(), json!(t.chr));
        m.insert("l".into(), json!(t.line + 1));
        match t.payload {
            Payload::None => {
                m.insert("pk".into(), json!("n"));
            }
            Payload::Integer(i) => {
                m.insert("pk".into(), json!("i"));
                m.insert("pi".into(), digits_of(&i.to_string()));
            }
            Payload::Float(_) => {
                m.insert("pk".into(), json!("f"));
            }
            Payload::StringLiteral(s, e) => {
                m.insert("pk".into(), json!("s"));
                m.insert("ps".into(), json!(s));
                m.insert("pe".into(), json!(e));
            }
        }
        if !matches!(t.payload, Payload::Integer(_)) {
            m.insert("pi".into(), json!([]));
        }
        if !matches!(t.payload, Payload::StringLiteral(..)) {
            m.insert("ps".into(), json!(0));
            m.insert("pe".into(), json!(0));
        }
        Value::Object(m)
    }

    pub fn event_json(e: &IterEvent) -> Value {
        json!({
            "q": e.seq,
            "ph": match e.phase { Phase::Lex => "L", Phase::Finalize => "F", Phase::Eof => "E" },
            "mb": mode_json(&e.mode_before),
            "nc": e.next_char.map_or_else(String::new, |c| c.to_string()),
            "bb": e.byte_before,
            "ba": e.byte_after,
            "ca": e.char_after,
            "tb": e.tok_byte_after,
            "cfg": config_json(&e.config_after),
            "ops": e.ops.iter().map(|o| match o {
                CkptOp::Checkpoint => "C",
                CkptOp::Clear => "X",
                CkptOp::ClearNone => "XN",
                CkptOp::Rollback => "R",
                CkptOp::RollbackMissing => "RM",
                CkptOp::CheckpointOverLive => "CL",
            }).collect::<Vec<_>>(),
            "nb": e.ntok_before,
            "fc": e.first_changed,
            "tt": e.toks_tail.iter().map(tok_json).collect::<Vec<_>>(),
            "lb": e.nline_before,
            "la": e.nline_after,
            "lt": e.lines_tail.iter().map(|(b, c)| json!([b, c])).collect::<Vec<_>>(),
            "eb": e.nerr_before,
            "ne": e.new_errors.iter().map(err_json).collect::<Vec<_>>(),
            "nl": e.nlit_after,
        })
    }
}

fn lex(src: &String, _opts: &Opts) -> Result<LexResult, sas_lexer::error::ErrorKind> {
    #[cfg(sas_lexer_verif)]
    {
        sas_lexer::lex_program_verif(
            src,
            sas_lexer::verif::VerifOptions {
                record: _opts.events,
                budget_mul: _opts.budget_mul,
                budget_add: _opts.budget_add,
            },
        )
    }
    #[cfg(not(sas_lexer_verif))]
    {
        sas_lexer::lex_program(src)
    }
}

/// Dumps the final result through the public API only.
fn result_json(src: &String, buffer: &TokenizedBuffer, errors: &[ErrorInfo], out: &mut Map<String, Value>) {
    let mut toks = Vec::new();
    let mut acc_fail = 0u32;
    let mut concat_ok = true;
    let mut concat = String::new();
    for idx in buffer.iter_tokens() {
        let mut m = Map::new();
        macro_rules! acc {
            ($name:expr, $call:expr) => {
                match $call {
                    Ok(v) => {
                        m.insert($name.into(), json!(v));
                    }
                    Err(_) => {
                        acc_fail += 1;
                        m.insert($name.into(), json!(-1));
                    }
                }
            };
        }
        m.insert("i".into(), json!(idx.get()));
        match buffer.get_token_type(idx) {
            Ok(t) => {
                m.insert("ty".into(), json!(t.to_string()));
                m.insert("tn".into(), json!(t as u16));
            }
            Err(_) => {
                acc_fail += 1;
                m.insert("ty".into(), json!("?"));
                m.insert("tn".into(), json!(-1));
            }
        }
        match buffer.get_token_channel(idx) {
            Ok(t) => {
                m.insert("ch".into(), json!(t.to_string()));
            }
            Err(_) => {
                acc_fail += 1;
                m.insert("ch".into(), json!("?"));
            }
        }
        acc!("b", buffer.get_token_start_byte_offset(idx).map(|o| o.get()));
        acc!("c", buffer.get_token_start(idx).map(|o| o.get()));
        acc!("eb", buffer.get_token_end_byte_offset(idx).map(|o| o.get()));
        acc!("ec", buffer.get_token_end(idx).map(|o| o.get()));
        acc!("l", buffer.get_token_start_line(idx));
        acc!("col", buffer.get_token_start_column(idx));
        acc!("el", buffer.get_token_end_line(idx));
        acc!("ecol", buffer.get_token_end_column(idx));
        match buffer.get_token_raw_text(idx, src) {
            Ok(t) => {
                concat.push_str(t.unwrap_or(""));
                m.insert("raw".into(), json!(true));
            }
            Err(_) => {
                acc_fail += 1;
                concat_ok = false;
                m.insert("raw".into(), json!(false));
            }
        }
        match buffer.get_token_payload(idx) {
            Ok(p) => {
                payload_json(p, &mut m);
                if let Payload::StringLiteral(s, e) = p {
                    match buffer.get_string_literal(s, e) {
                        Ok(t) => {
                            m.insert("pt".into(), chars_json(t));
                            m.insert(
                                "ptc".into(),
                                Value::Array(t.chars().map(|c| json!(c as u32)).collect()),
                            );
                            m.insert("ptok".into(), json!(true));
                        }
                        Err(_) => {
                            acc_fail += 1;
                            m.insert("pt".into(), json!([]));
                            m.insert("ptc".into(), json!([]));
                            m.insert("ptok".into(), json!(false));
                        }
                    }
                    if buffer.get_token_resolved_text(idx, src).is_err() {
                        acc_fail += 1;
                    }
                }
            }
            Err(_) => {
                acc_fail += 1;
                m.insert("pk".into(), json!("?"));
            }
        }
        if !m.contains_key("ps") {
            m.insert("ps".into(), json!(0));
            m.insert("pe".into(), json!(0));
        }
        if !m.contains_key("pt") {
            m.insert("pt".into(), json!([]));
            m.insert("ptc".into(), json!([]));
            m.insert("ptok".into(), json!(true));
        }
        toks.push(Value::Object(m));
    }

    // bulk view
    let rtoks: Vec<Value> = buffer
        .into_resolved_token_vec()
        .iter()
        .map(|r| {
            let mut m = Map::new();
            m.insert("i".into(), json!(r.token_index));
            m.insert("ty".into(), json!(r.token_type.to_string()));
            m.insert("ch".into(), json!(r.channel.to_string()));
            m.insert("c".into(), json!(r.start));
            m.insert("ec".into(), json!(r.stop));
            m.insert("l".into(), json!(r.line));
            m.insert("col".into(), json!(r.column));
            m.insert("el".into(), json!(r.end_line));
            m.insert("ecol".into(), json!(r.end_column));
            match r.payload {
                Payload::None => {
                    m.insert("pk".into(), json!("n"));
                    m.insert("pv".into(), json!(""));
                }
                Payload::Integer(i) => {
                    m.insert("pk".into(), json!("i"));
                    m.insert("pv".into(), json!(i.to_string()));
                }
                Payload::Float(f) => {
                    m.insert("pk".into(), json!("f"));
                    m.insert("pv".into(), json!(format!("{:016x}", f.to_bits())));
                }
                Payload::StringLiteral(s, e) => {
                    m.insert("pk".into(), json!("s"));
                    m.insert("pv".into(), json!(format!("{s}:{e}")));
                }
            }
            Value::Object(m)
        })
        .collect();

    // the same payload rendering for the accessor view, for C05
    for t in &mut toks {
        if let Value::Object(m) = t {
            let pv = match m.get("pk").and_then(Value::as_str) {
                Some("i") => m.get("pis").and_then(Value::as_str).unwrap_or("").to_string(),
                Some("f") => m
                    .get("pf")
                    .and_then(|f| f.get("bits"))
                    .and_then(Value::as_str)
                    .unwrap_or("")
                    .to_string(),
                Some("s") => format!(
                    "{}:{}",
                    m.get("ps").and_then(Value::as_u64).unwrap_or(0),
                    m.get("pe").and_then(Value::as_u64).unwrap_or(0)
                ),
                _ => String::new(),
            };
            m.insert("pv".into(), json!(pv));
        }
    }

    out.insert("toks".into(), Value::Array(toks));
    out.insert("rtoks".into(), Value::Array(rtoks));
    out.insert("errs".into(), Value::Array(errors.iter().map(err_json).collect()));
    out.insert("acc_fail".into(), json!(acc_fail));
    out.insert("concat_ok".into(), json!(concat_ok && {
        let body = src.strip_prefix('\u{feff}').unwrap_or(src);
        concat == body
    }));
    out.insert("nlines".into(), json!(buffer.line_count()));
    out.insert("ntoks".into(), json!(buffer.token_count()));
    let lit = buffer.string_literals_buffer();
    out.insert("litlen".into(), json!(lit.len()));
    out.insert("lit".into(), chars_json(lit));
    out.insert(
        "litw".into(),
        Value::Array(lit.chars().map(|c| json!(c.len_utf8())).collect()),
    );
    #[cfg(sas_lexer_verif)]
    out.insert(
        "lstarts".into(),
        Value::Array(
            buffer
                .verif_line_starts()
                .iter()
                .map(|(b, c)| json!([b, c]))
                .collect(),
        ),
    );
}

fn run_case(id: &Value, src: &String, opts: &Opts, meta: &Map<String, Value>) -> Value {
    let mut out = Map::new();
    out.insert("id".into(), id.clone());
    for (k, v) in meta {
        out.insert(k.clone(), v.clone());
    }
    out.insert("len".into(), json!(src.len()));
    out.insert("nchars".into(), json!(src.chars().count()));
    if opts.chars {
        out.insert("cs".into(), chars_json(src));
        out.insert(
            "cw".into(),
            Value::Array(src.chars().map(|c| json!(c.len_utf8())).collect()),
        );
        out.insert(
            "cc".into(),
            Value::Array(src.chars().map(|c| json!(char_class(c))).collect()),
        );
        // Position tables ("certificates": the TLA+ side re-checks them locally against
        // cs/cw before using them). Index p+1 describes position p (before char p+1).
        let n = src.chars().count();
        let bom = usize::from(src.starts_with('\u{feff}'));
        let mut cb = Vec::with_capacity(n + 1);
        let mut cl = Vec::with_capacity(n + 1);
        let mut cco = Vec::with_capacity(n + 1);
        let (mut b, mut l, mut col) = (0usize, 1usize, 0i64);
        if bom == 1 {
            col = -1;
        }
        for c in src.chars() {
            cb.push(b);
            cl.push(l);
            cco.push(col);
            b += c.len_utf8();
            if c == '\n' {
                l += 1;
                col = 0;
            } else {
                col += 1;
            }
        }
        cb.push(b);
        cl.push(l);
        cco.push(col);
        out.insert("cb".into(), json!(cb));
        out.insert("cl".into(), json!(cl));
        out.insert("cco".into(), json!(cco));
        out.insert("bom".into(), json!(bom));
    } else {
        out.insert("src".into(), json!(src));
    }

    let res = catch_unwind(AssertUnwindSafe(|| lex(src, opts)));

    match res {
        Err(p) => {
            let msg = p
                .downcast_ref::<&str>()
                .map(|s| (*s).to_string())
                .or_else(|| p.downcast_ref::<String>().cloned())
                .unwrap_or_else(|| "panic".to_string());
            out.insert("panic".into(), json!(msg));
            out.insert("ok".into(), json!(false));
        }
        Ok(Err(e)) => {
            out.insert("panic".into(), json!(""));
            out.insert("ok".into(), json!(false));
            out.insert("lexerr".into(), json!(e.to_string()));
        }
        Ok(Ok(result)) => {
            // accessors may panic in debug (debug_assert on index) - treat as data too
            let r2 = catch_unwind(AssertUnwindSafe(|| {
                let mut m = Map::new();
                result_json(src, &result.buffer, &result.errors, &mut m);
                m
            }));
            match r2 {
                Ok(m) => {
                    out.insert("panic".into(), json!(""));
                    out.insert("ok".into(), json!(true));
                    out.extend(m);
                }
                Err(p) => {
                    let msg = p
                        .downcast_ref::<&str>()
                        .map(|s| (*s).to_string())
                        .or_else(|| p.downcast_ref::<String>().cloned())
                        .unwrap_or_else(|| "panic".to_string());
                    out.insert("panic".into(), json!(format!("accessor: {msg}")));
                    out.insert("ok".into(), json!(false));
                }
            }
            #[cfg(sas_lexer_verif)]
            {
                let v = &result.verif;
                out.insert("iters".into(), json!(v.iters));
                out.insert("fin_iters".into(), json!(v.fin_iters));
                out.insert("budget_exceeded".into(), json!(v.budget_exceeded));
                out.insert("max_stack".into(), json!(v.max_stack));
                out.insert("at_eof".into(), ev::config_json(&v.at_eof));
                out.insert(
                    "events".into(),
                    Value::Array(v.events.iter().map(ev::event_json).collect()),
                );
            }
            #[cfg(not(sas_lexer_verif))]
            {
                out.insert("iters".into(), json!(0));
                out.insert("fin_iters".into(), json!(0));
                out.insert("budget_exceeded".into(), json!(false));
                out.insert("max_stack".into(), json!(0));
                out.insert("events".into(), json!([]));
                out.insert("lstarts".into(), json!([]));
            }
        }
    }
    Value::Object(out)
}

fn main() {
    let opts = Arc::new(parse_args());
    // panics are data; keep stderr quiet
    std::panic::set_hook(Box::new(|_| {}));

    let f = std::fs::File::open(&opts.input).expect("open input");
    let mut cases: Vec<(Value, String, Map<String, Value>)> = Vec::new();
    for line in std::io::BufReader::new(f).lines() {
        let line = line.expect("read");
        if line.trim().is_empty() {
            continue;
        }
        let v: Value = serde_json::from_str(&line).expect("json case");
        let id = v.get("id").cloned().unwrap_or(Value::Null);
        let src = v.get("src").and_then(Value::as_str).expect("src").to_string();
        let mut meta = Map::new();
        if let Value::Object(m) = &v {
            for (k, val) in m {
                if k != "id" && k != "src" {
                    meta.insert(k.clone(), val.clone());
                }
            }
        }
        cases.push((id, src, meta));
    }
    let cases = Arc::new(cases);
    let n = cases.len();
    let outf = std::fs::File::create(&opts.output).expect("create output");
    let out = Arc::new(Mutex::new(BufWriter::with_capacity(1 << 20, outf)));

    if opts.threads <= 1 {
        let mut w = out.lock().unwrap();
        let cap = cases.iter().map(|c| c.1.len()).max().unwrap_or(0) + 16;
        let mut buf = String::with_capacity(cap);
        for (id, src, meta) in cases.iter() {
            let v = if opts.reuse {
                buf.clear();
                buf.push_str(src);
                run_case(id, &buf, &opts, meta)
            } else {
                run_case(id, src, &opts, meta)
            };
            serde_json::to_writer(&mut *w, &v).unwrap();
            w.write_all(b"\n").unwrap();
        }
        w.flush().unwrap();
        return;
    }

    // threaded modes
    let clock = Arc::new(AtomicU64::new(0));
    let active = Arc::new(AtomicU64::new(0));
    let max_overlap = Arc::new(AtomicU64::new(0));
    let results: Arc<Mutex<Vec<Option<String>>>> = Arc::new(Mutex::new(vec![None; n]));
    let mismatches = Arc::new(Mutex::new(Vec::<Value>::new()));
    let next = Arc::new(AtomicU64::new(0));
    let mut handles = Vec::new();
    for t in 0..opts.threads {
        let (cases, opts, results, mismatches, next, clock, active, max_overlap) = (
            cases.clone(),
            opts.clone(),
            results.clone(),
            mismatches.clone(),
            next.clone(),
            clock.clone(),
            active.clone(),
            max_overlap.clone(),
        );
        handles.push(std::thread::spawn(move || {
            let order: Vec<usize> = if opts.all_on_all {
                // a different permutation per thread: stride walk
                let stride = {
                    let mut s = 2 * t + 1;
                    while gcd(s, n.max(1)) != 1 {
                        s += 2;
                    }
                    s
                };
                (0..n).map(|i| (i * stride + t * 7919) % n.max(1)).collect()
            } else {
                Vec::new()
            };
            let mut k = 0usize;
            loop {
                let i = if opts.all_on_all {
                    if k >= order.len() {
                        break;
                    }
                    let i = order[k];
                    k += 1;
                    i
                } else {
                    let i = next.fetch_add(1, Ordering::SeqCst) as usize;
                    if i >= n {
                        break;
                    }
                    i
                };
                let (id, src, meta) = &cases[i];
                clock.fetch_add(1, Ordering::SeqCst);
                let a = active.fetch_add(1, Ordering::SeqCst) + 1;
                max_overlap.fetch_max(a, Ordering::SeqCst);
                let v = run_case(id, src, &opts, meta);
                active.fetch_sub(1, Ordering::SeqCst);
                let s = serde_json::to_string(&v).unwrap();
                let mut r = results.lock().unwrap();
                match &r[i] {
                    None => r[i] = Some(s),
                    Some(prev) => {
                        if *prev != s {
                            mismatches
                                .lock()
                                .unwrap()
                                .push(json!({"id": id, "thread": t}));
                        }
                    }
                }
            }
        }));
    }
    for h in handles {
        h.join().unwrap();
    }
    let mut w = out.lock().unwrap();
    let r = results.lock().unwrap();
    for s in r.iter().flatten() {
        w.write_all(s.as_bytes()).unwrap();
        w.write_all(b"\n").unwrap();
    }
    let mm = mismatches.lock().unwrap();
    let summary = json!({
        "id": "__threads__",
        "threads": opts.threads,
        "all_on_all": opts.all_on_all,
        "max_overlap": max_overlap.load(Ordering::SeqCst),
        "calls": clock.load(Ordering::SeqCst),
        "mismatches": *mm,
    });
    serde_json::to_writer(&mut *w, &summary).unwrap();
    w.write_all(b"\n").unwrap();
    w.flush().unwrap();
}

fn gcd(a: usize, b: usize) -> usize {
    if b == 0 {
        a
    } else {
        gcd(b, a % b)
    }
}
