------------------------------ MODULE Unquote ------------------------------
(***************************************************************************)
(* C07: string payloads hold the unquoted value (DESIGN.md 7.5) and the    *)
(* payload ranges partition the string-literal buffer.                     *)
(***************************************************************************)
EXTENDS Shapes

\* collapse doubled q in cs[lo..hi]
RECURSIVE Collapse(_, _, _, _, _)
Collapse(cs, q, lo, hi, acc) ==
  IF lo > hi THEN acc
  ELSE IF cs[lo] = q /\ lo + 1 <= hi /\ cs[lo + 1] = q
         THEN Collapse(cs, q, lo + 2, hi, Append(acc, q))
         ELSE Collapse(cs, q, lo + 1, hi, Append(acc, cs[lo]))

StrQuotable == {"'", "\"", "%", "(", ")"}
\* undo %-quoting in %str/%nrstr text
RECURSIVE UnPercent(_, _, _, _)
UnPercent(cs, lo, hi, acc) ==
  IF lo > hi THEN acc
  ELSE IF cs[lo] = "%" /\ lo + 1 <= hi /\ cs[lo + 1] \in StrQuotable
         THEN UnPercent(cs, lo + 2, hi, Append(acc, cs[lo + 1]))
         ELSE UnPercent(cs, lo + 1, hi, Append(acc, cs[lo]))

HexVal(c) ==
  CASE c \in Digits -> CHOOSE v \in 0..9 : <<"0","1","2","3","4","5","6","7","8","9">>[v + 1] = c
    [] Up(c) = "A" -> 10 [] Up(c) = "B" -> 11 [] Up(c) = "C" -> 12
    [] Up(c) = "D" -> 13 [] Up(c) = "E" -> 14 [] Up(c) = "F" -> 15
    [] OTHER -> 0 - 1

RECURSIVE DropCommas(_, _, _)
DropCommas(cs, i, acc) ==
  IF i > Len(cs) THEN acc
  ELSE DropCommas(cs, i + 1, IF cs[i] = "," THEN acc ELSE Append(acc, cs[i]))

\* content of a hex literal is hex digit pairs (commas allowed): the decoded code points
HexValid(content) ==
  LET h == DropCommas(content, 1, <<>>) IN
  Len(h) % 2 = 0 /\ \A i \in 1..Len(h) : IsHex(h[i])
HexDecode(content) ==
  LET h == DropCommas(content, 1, <<>>) IN
  [i \in 1..(Len(h) \div 2) |-> 16 * HexVal(h[2*i - 1]) + HexVal(h[2*i])]

\* the MacroString token was emitted by the %str/%nrstr scanner (events tell the mode)
InStrCall(r, t) ==
  \E e \in 1..Len(r.events) :
     /\ r.events[e].mb.k = "MacroStrQuotedExpr"
     /\ \E j \in 1..Len(r.events[e].tt) :
          r.events[e].tt[j].ty = "MacroString" /\ r.events[e].tt[j].b = t.b

\* What the payload of token i (1-based) must be: <<present, chars, codepoints-or-<<>>, byCode>>
Expected(r, i) ==
  LET t == r.toks[i]
      cs == TokText(r, t)
      n == Len(cs)
      ty == t.ty
  IN
  IF ty \in StrLitTypes THEN
       LET term == ~HasErrAt(r, "UnterminatedStringLiteral", t.i)
           hi == IF term THEN n - 1 - Len(LitSuffix(ty)) ELSE n
           content == SubSeq(cs, 2, hi)
           unq == Collapse(cs, cs[1], 2, hi, <<>>)
       IN IF ty = "HexStringLiteral" /\ term /\ HexValid(content)
            THEN [present |-> TRUE, byCode |-> TRUE, code |-> HexDecode(content), chars |-> <<>>]
            ELSE [present |-> unq # content, byCode |-> FALSE, code |-> <<>>, chars |-> unq]
  ELSE IF ty = "StringExprText" \/ (ty = "StringExprEnd" /\ HasErrAt(r, "UnterminatedStringLiteral", t.i)) THEN
       LET unq == Collapse(cs, "\"", 1, n, <<>>)
       IN [present |-> unq # cs, byCode |-> FALSE, code |-> <<>>, chars |-> unq]
  ELSE IF ty = "MacroString" /\ InStrCall(r, t) THEN
       LET unq == UnPercent(cs, 1, n, <<>>)
       IN [present |-> unq # cs, byCode |-> FALSE, code |-> <<>>, chars |-> unq]
  ELSE [present |-> FALSE, byCode |-> FALSE, code |-> <<>>, chars |-> <<>>]

C07_presence(r) ==
  {i \in 1..NT(r) : (r.toks[i].pk = "s") # Expected(r, i).present}
C07_value(r) ==
  {i \in 1..NT(r) :
     /\ r.toks[i].pk = "s" /\ Expected(r, i).present
     /\ LET e == Expected(r, i) IN
          ~( /\ r.toks[i].ptok
             /\ IF e.byCode THEN r.toks[i].ptc = e.code ELSE r.toks[i].pt = e.chars )}
\* hex literals: the error is reported exactly for malformed contents
C07_hex_error(r) ==
  {i \in 1..NT(r) : LET t == r.toks[i]  cs == TokText(r, t) IN
     /\ t.ty = "HexStringLiteral"
     /\ ~HasErrAt(r, "UnterminatedStringLiteral", t.i)
     /\ HexValid(SubSeq(cs, 2, Len(cs) - 2)) = HasErrAt(r, "InvalidHexStringConstant", t.i)}

\* payload ranges: valid, ordered, contiguous, covering the buffer exactly
PayIdx(r) == {i \in 1..NT(r) : r.toks[i].pk = "s"}
C07_partition(r) ==
  LET P == PayIdx(r) IN
  {i \in P : LET t == r.toks[i]
                 prev == {j \in P : j < i}
             IN \/ t.ps > t.pe \/ t.pe > r.litlen
                \/ (prev = {} /\ t.ps # 0)
                \/ (prev # {} /\ t.ps # r.toks[CHOOSE j \in prev : \A k \in prev : k <= j].pe)
                \/ ({j \in P : j > i} = {} /\ t.pe # r.litlen)}
C07_buffer_unused(r) == IF PayIdx(r) = {} /\ r.litlen # 0 THEN {r.litlen} ELSE {}
=============================================================================
