---------------------------- MODULE BufferProof ----------------------------
(***************************************************************************)
(* C05, unbounded: for EVERY buffer satisfying the two facts the formulas   *)
(* of buffer.rs rely on (token starts are non-decreasing; a token's line   *)
(* index designates a line that starts at or before the token), the bulk   *)
(* view of a token equals what the accessors return.  Checked by tlapm     *)
(* (SMT back end); MC_Views.tla checks the same by enumeration for small   *)
(* buffers and, in addition, that both equal the text-derived reference.   *)
(***************************************************************************)
EXTENDS Buffer, TLAPS

TokRec == [c : Int, line : Nat]
BufOK(B) ==
  /\ B.toks \in Seq(TokRec)
  /\ B.lines \in Seq(Int)
  /\ \A j \in 1..Len(B.toks) :
        /\ B.toks[j].line + 1 \in 1..Len(B.lines)
        /\ B.lines[B.toks[j].line + 1] <= B.toks[j].c
  /\ \A j \in 1..(Len(B.toks) - 1) : B.toks[j].c <= B.toks[j+1].c

THEOREM ViewsAgreeThm ==
  ASSUME NEW B, BufOK(B), NEW i \in 1..NTok(B)
  PROVE  Bulk(B, i) = Acc(B, i)
<1> USE DEF BufOK, TokRec, NTok, Start, End
<1>1. CASE i = NTok(B)
  BY <1>1 DEF Bulk, Acc, BulkEndLineIdx, AccEndLine, AccEndCol, AccStartLine, AccStartCol
<1>2. CASE i < NTok(B)
  <2> DEFINE nx == B.toks[i+1]
  <2>1. /\ i + 1 \in 1..Len(B.toks) /\ i \in 1..(Len(B.toks) - 1)
        /\ nx.line \in Nat /\ nx.c \in Int /\ B.toks[i].c \in Int
        /\ nx.line + 1 \in 1..Len(B.lines)
        /\ B.lines[nx.line + 1] \in Int
        /\ B.lines[nx.line + 1] <= nx.c
        /\ B.toks[i].c <= nx.c
    BY <1>2
  <2>2. BulkEndLineIdx(B, i) + 1 = AccEndLine(B, i)
    BY <1>2, <2>1 DEF BulkEndLineIdx, AccEndLine, AccStartLine
  <2> QED
    BY <1>2, <2>1, <2>2 DEF Bulk, Acc, AccEndCol, AccStartLine, AccStartCol
<1> QED
  BY <1>1, <1>2
=============================================================================
