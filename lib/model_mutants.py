#!/usr/bin/env python3
"""Sensitivity of the design-level legs: each entry mutates one line of the operational model (a copy of spec/ in a
scratch directory), runs the design-level model-checking legs on the mutated copy and records which invariant rejects
it.  A mutant that no leg rejects is a hole in the design-level checks (or an equivalent mutant).

    python3 lib/model_mutants.py [name ...]      -> prints one line per mutant, writes model_mutants.json

Not a registered check: the result is documentation (DESIGN.md section 9.1)."""
import json
import os
import re
import shutil
import subprocess
import sys
import time

VERIF = os.path.dirname(os.path.dirname(os.path.abspath(__file__)))
sys.path.insert(0, os.path.join(VERIF, "lib"))
import common  # noqa: E402
import props   # noqa: E402

MUTANTS = [
    # name, file, old, new, what it models
    ("mcomment-lf-in-quotes", "SasLexer.tla",
     'ELSE IF c = LF THEN MCommentLoop(AddLine(S1), T, q)',
     'ELSE IF c = LF THEN MCommentLoop(IF q = "" THEN AddLine(S1) ELSE S1, T, q)',
     "line feeds inside the quoted part of a macro comment are not registered"),
    ("rollback-keeps-lines", "SasLexer.tla",
     '!.lines = SubSeq(S.lines, 1, IF S.ck.nl < Len(S.lines) THEN S.ck.nl ELSE Len(S.lines)),',
     '!.lines = S.lines,',
     "rollback does not truncate the line table"),
    ("rollback-keeps-literals", "SasLexer.tla",
     '!.nlit = IF S.ck.ns < S.nlit THEN S.ck.ns ELSE S.nlit,',
     '!.nlit = S.nlit,',
     "rollback does not truncate the literal buffer"),
    ("datalines-lookbehind-last-token", "SasLexer.tla",
     'LET ld == LastDef(S)\n      w == WsEnd',
     'LET ld == LastTok(S)\n      w == WsEnd',
     "the datalines look-behind reads the last token instead of the last default-channel token"),
    ("clear-checkpoint-noop", "SasLexer.tla",
     'ClearCk(S) == [Op(S, IF S.ck.set THEN "X" ELSE "XN") EXCEPT !.ck = NoCk]',
     'ClearCk(S) == Op(S, IF S.ck.set THEN "X" ELSE "XN")',
     "clear_checkpoint leaves the checkpoint set"),
    ("expected-pops-at-eof", "SasLexer.tla",
     'IN IF atEof THEN S2 ELSE Pop(S2)',
     'IN Pop(S2)',
     "lex_expected_token pops a mode also when called from finalize (the defect repaired by 5446615)"),
    ("keyword-lookup-case-sensitive", "SasLexer.tla",
     'up == IF ascii /\\ e - S.pos <= MaxKwLen THEN UpStr(SubSeq(T.cs, S.pos + 1, e)) ELSE ""',
     'up == IF ascii /\\ e - S.pos <= MaxKwLen THEN CatStr(SubSeq(T.cs, S.pos + 1, e)) ELSE ""',
     "open-code keywords are looked up without upper-casing"),
    ("sep-after-semi", "SasLexer.tla",
     'prev \\notin {"None", "SEMI", "MacroLabel", "KwmThen", "KwmElse"} /\\ ty \\in SepStatTypes',
     'prev \\notin {"None", "MacroLabel", "KwmThen", "KwmElse"} /\\ ty \\in SepStatTypes',
     "a separator is also inserted after a semicolon"),
    ("missing-rparen-error-dropped", "SasLexer.tla",
     'IF m.p > 0 THEN EmitN(EmitErr(S, "MissingExpectedRParen"), "RPAREN", m.p) ELSE S',
     'IF m.p > 0 THEN EmitN(S, "RPAREN", m.p) ELSE S',
     "virtual closing parentheses at end of input without their error"),
    ("eof-at-token-start", "SasLexer.tla",
     'EofStep(S) == EmitAt([S EXCEPT !.ops = <<>>], "DEFAULT", "EOF", S.pos)',
     'EofStep(S) == EmitAt([S EXCEPT !.ops = <<>>], "DEFAULT", "EOF", S.ts)',
     "the final EOF token is placed at the start of the last token"),
    ("bom-not-skipped", "SasLexer.tla",
     '[sep |-> sepOn, pos |-> bom, ts |-> bom, tl |-> 0, modes',
     '[sep |-> sepOn, pos |-> 0, ts |-> 0, tl |-> 0, modes',
     "a leading BOM is lexed as text"),
    ("resolve-token-start-kept", "SasLexer.tla",
     'ELSE EmitResolves(StartTok(SetPi(EmitD(Adv(S, 2^(ops[j])), "MacroVarResolve"), SmallDigits(ops[j]))), ops, j + 1)',
     'ELSE EmitResolves(SetPi(EmitD(Adv(S, 2^(ops[j])), "MacroVarResolve"), SmallDigits(ops[j])), ops, j + 1)',
     "consecutive resolve tokens share one start"),
]

# design-level legs: (label, module, spec name, invariants, fragment set, stack, calls, window, r1 fragments or None, extra consts)
LEGS = [
    ("R1 open<=3", "MC_SasLexer", "Spec", props.DESIGN_INVS.replace("CkptDiscipline ", "") + " OpenCodeEq", "open", 40, 9, 9, 3, ""),
    ("R1 str<=3", "MC_SasLexer", "Spec", props.DESIGN_INVS.replace("CkptDiscipline ", ""), "str", 40, 9, 9, 3, ""),
    ("R1 call<=3", "MC_SasLexer", "Spec", props.DESIGN_INVS.replace("CkptDiscipline ", ""), "call", 40, 9, 9, 3, ""),
    ("R1 macrostat<=2", "MC_SasLexer", "Spec", props.DESIGN_INVS.replace("CkptDiscipline ", ""), "macrostat", 40, 9, 9, 2, ""),
    ("R2 str", "MC_SasLexer", "Spec", props.DESIGN_INVS, "str", 30, 1, 2, None, ""),
    ("Twin case open", "MC_Twin", "TSpec", "TwinSame NoFault", "open", 8, 9, 3, None, '  Twin = "case"\n'),
    ("Twin bom open", "MC_Twin", "TSpec", "TwinSame NoFault", "open", 8, 9, 3, None, '  Twin = "bom"\n'),
    ("SepPair macrostat", "MC_SepPair", "PSpec", "SameConfiguration SepErase SepPlacement SepPlacementStrict NoFault", "macrostat", 7, 1, 2, None, ""),
    ("Compose open", "MC_Compose", "CSpec", "Compose NoFault", "open", 8, 9, 3, None, ""),
]
VIEWS = {"MC_SasLexer": "VIEW View", "MC_Twin": "VIEW View", "MC_SepPair": "VIEW PView", "MC_Compose": "VIEW CView"}


def run_leg(specdir, workdir, leg):
    label, module, spec, invs, fs, stack, calls, window, r1, extra = leg
    cfg = props.MC_CFG % dict(invs=invs, props="", view="" if r1 else VIEWS[module], maxfrags=r1 if r1 else 1000,
                              spec=80 if r1 else 8, tsc=40 if r1 else 4, fs=fs, stack=stack, window=window, calls=calls, emit="0")
    cfg = cfg.replace("SPECIFICATION Spec", "SPECIFICATION " + spec).replace("CONSTANTS\n", "CONSTANTS\n" + extra)
    cfgp = os.path.join(workdir, "mm.cfg")
    open(cfgp, "w").write(cfg)
    meta = os.path.join(workdir, "meta")
    shutil.rmtree(meta, ignore_errors=True)
    cmd = ["timeout", "900", "java", "-XX:+UseParallelGC", "-Xmx16g", "-Xss512m", "-cp", common.TLC_CP, "tlc2.TLC", "-workers", "12",
           "-metadir", meta, "-cleanup", "-noGenerateSpecTE", "-config", cfgp, os.path.join(specdir, module + ".tla")]
    env = dict(os.environ)
    env.pop("JAVA_TOOL_OPTIONS", None)
    p = subprocess.run(cmd, cwd=specdir, env=env, stdout=subprocess.PIPE, stderr=subprocess.STDOUT, text=True)
    shutil.rmtree(meta, ignore_errors=True)
    out = p.stdout
    if "Model checking completed. No error has been found." in out:
        return None
    m = re.search(r"Invariant (\w+) is violated", out)
    if m:
        return m.group(1)
    m = re.search(r"Error: (.*)", out)
    return "tool-error: " + (m.group(1)[:120] if m else "rc=%s" % p.returncode)


def main():
    names = set(sys.argv[1:])
    work = os.path.join(common.WORK, "model-mutants")
    res = []
    for name, fn, old, new, what in MUTANTS:
        if names and name not in names:
            continue
        d = os.path.join(work, name)
        shutil.rmtree(d, ignore_errors=True)
        shutil.copytree(common.SPEC, d)
        text = open(os.path.join(d, fn)).read()
        if text.count(old) != 1:
            print("%-34s pattern occurs %d times: skipped" % (name, text.count(old)))
            res.append({"mutant": name, "what": what, "status": "pattern not found"})
            continue
        open(os.path.join(d, fn), "w").write(text.replace(old, new))
        t0 = time.time()
        caught = []
        for leg in LEGS:
            r = run_leg(d, d, leg)
            if r is not None:
                caught.append((leg[0], r))
                if not r.startswith("tool-error"):
                    break
        shutil.rmtree(d, ignore_errors=True)
        res.append({"mutant": name, "what": what, "rejected_by": ["%s: %s" % c for c in caught],
                    "status": "rejected" if any(not c[1].startswith("tool-error") for c in caught) else "not rejected",
                    "wall_s": round(time.time() - t0, 1)})
        print("%-34s %s (%.0fs)" % (name, "; ".join("%s: %s" % c for c in caught) or "NOT REJECTED by any leg", time.time() - t0), flush=True)
    shutil.rmtree(work, ignore_errors=True)
    if not names:
        with open(os.path.join(VERIF, "model_mutants.json"), "w") as f:
            json.dump({"legs": [l[0] for l in LEGS], "results": res}, f, indent=1)


if __name__ == "__main__":
    main()
