-------------------------------- MODULE Rel --------------------------------
(***************************************************************************)
(* Relational properties: each case record holds several results of the    *)
(* real lexer (fields a, b, ab ...) and the clause relates them.           *)
(*   C15 compose   ab = lex(A ++ B), a = lex(A), b = lex(B)                *)
(*   C16 case      a = lex(s), b = lex(case variant of s)                  *)
(*   C17 BOM       a = lex(s), b = lex(U+FEFF ++ s)                        *)
(*   C18 macro_sep a = with the feature, b = without                       *)
(*   C19 function  a, b = two builds / schedules on the same text          *)
(***************************************************************************)
EXTENDS Num

Min(x, y) == IF x < y THEN x ELSE y
TokCore(t) == <<t.ty, t.ch, t.pk, t.pv>>
ErrCore(e) == <<e.k, e.code>>
Ok2(p) == p.a.ok /\ p.b.ok /\ ~p.a.budget_exceeded /\ ~p.b.budget_exceeded

\* =====================================================================
\* C17  BOM transparency: b is a with a BOM in front
\* =====================================================================
C17_len(p) ==
  (IF Len(p.a.toks) = Len(p.b.toks) THEN {} ELSE {<<"tokens", Len(p.a.toks), Len(p.b.toks)>>}) \cup
  (IF Len(p.a.errs) = Len(p.b.errs) THEN {} ELSE {<<"errors", Len(p.a.errs), Len(p.b.errs)>>}) \cup
  (IF p.a.nlines = p.b.nlines THEN {} ELSE {<<"lines", p.a.nlines, p.b.nlines>>}) \cup
  (IF p.a.lit = p.b.lit THEN {} ELSE {<<"literal buffer", 0, 0>>})
C17_toks(p) ==
  {i \in 1..Min(Len(p.a.toks), Len(p.b.toks)) : LET x == p.a.toks[i]  y == p.b.toks[i] IN
     ~( /\ TokCore(x) = TokCore(y)
        /\ y.b = x.b + 3 /\ y.eb = x.eb + 3 /\ y.c = x.c + 1 /\ y.ec = x.ec + 1
        /\ y.l = x.l /\ y.col = x.col /\ y.el = x.el /\ y.ecol = x.ecol
        /\ y.ps = x.ps /\ y.pe = x.pe )}
C17_errs(p) ==
  {i \in 1..Min(Len(p.a.errs), Len(p.b.errs)) : LET x == p.a.errs[i]  y == p.b.errs[i] IN
     ~( /\ ErrCore(x) = ErrCore(y) /\ y.b = x.b + 3 /\ y.c = x.c + 1
        /\ y.l = x.l /\ y.col = x.col /\ y.lt = x.lt )}

\* =====================================================================
\* C16  ASCII case independence: b is a case variant of a
\* =====================================================================
C16_len(p) ==
  (IF Len(p.a.toks) = Len(p.b.toks) THEN {} ELSE {<<"tokens", Len(p.a.toks), Len(p.b.toks)>>}) \cup
  (IF Len(p.a.errs) = Len(p.b.errs) THEN {} ELSE {<<"errors", Len(p.a.errs), Len(p.b.errs)>>}) \cup
  (IF p.a.nlines = p.b.nlines THEN {} ELSE {<<"lines", p.a.nlines, p.b.nlines>>}) \cup
  (IF p.a.litlen = p.b.litlen THEN {} ELSE {<<"literal buffer length", p.a.litlen, p.b.litlen>>})
C16_toks(p) ==
  {i \in 1..Min(Len(p.a.toks), Len(p.b.toks)) : LET x == p.a.toks[i]  y == p.b.toks[i] IN
     ~( /\ x.ty = y.ty /\ x.ch = y.ch /\ x.pk = y.pk
        /\ (x.pk \in {"i", "f"} => x.pv = y.pv)
        /\ y.b = x.b /\ y.eb = x.eb /\ y.c = x.c /\ y.ec = x.ec
        /\ y.l = x.l /\ y.col = x.col /\ y.el = x.el /\ y.ecol = x.ecol
        /\ y.ps = x.ps /\ y.pe = x.pe )}
\* "only the case of raw and unquoted text differs": string payloads are equal up to ASCII case
C16_text(p) ==
  {i \in 1..Min(Len(p.a.toks), Len(p.b.toks)) : LET x == p.a.toks[i]  y == p.b.toks[i] IN
     x.pk = "s" /\ y.pk = "s" /\
     ~( /\ Len(x.pt) = Len(y.pt)
        /\ \A j \in 1..Len(x.pt) : Up(x.pt[j]) = Up(y.pt[j]) )}
C16_errs(p) ==
  {i \in 1..Min(Len(p.a.errs), Len(p.b.errs)) : p.a.errs[i] # p.b.errs[i]}

\* =====================================================================
\* C18  macro_sep only adds separators: a with the feature, b without
\* =====================================================================
NoSep(toks) == SelectSeq(toks, LAMBDA t : t.ty # "MacroSep")
\* number of MacroSep tokens among the first n tokens
RECURSIVE SepCount(_, _, _)
SepCount(toks, n, acc) ==
  IF n < 1 THEN acc ELSE SepCount(toks, n - 1, IF toks[n].ty = "MacroSep" THEN acc + 1 ELSE acc)
C18_len(p) ==
  (IF Len(NoSep(p.a.toks)) = Len(p.b.toks) THEN {} ELSE {<<"tokens", Len(NoSep(p.a.toks)), Len(p.b.toks)>>}) \cup
  (IF Len(p.a.errs) = Len(p.b.errs) THEN {} ELSE {<<"errors", Len(p.a.errs), Len(p.b.errs)>>}) \cup
  (IF p.a.nlines = p.b.nlines THEN {} ELSE {<<"lines", p.a.nlines, p.b.nlines>>}) \cup
  (IF p.a.lit = p.b.lit THEN {} ELSE {<<"literal buffer", 0, 0>>}) \cup
  (IF \E i \in 1..Len(p.b.toks) : p.b.toks[i].ty = "MacroSep" THEN {<<"MacroSep without the feature", 0, 0>>} ELSE {})
C18_erase(p) ==
  LET e == NoSep(p.a.toks) IN
  {i \in 1..Min(Len(e), Len(p.b.toks)) : LET x == e[i]  y == p.b.toks[i] IN
     ~( /\ TokCore(x) = TokCore(y)
        /\ y.b = x.b /\ y.eb = x.eb /\ y.c = x.c /\ y.ec = x.ec
        /\ y.l = x.l /\ y.col = x.col /\ y.el = x.el /\ y.ecol = x.ecol
        /\ y.ps = x.ps /\ y.pe = x.pe )}
C18_errs(p) ==
  {i \in 1..Min(Len(p.a.errs), Len(p.b.errs)) : LET x == p.a.errs[i]  y == p.b.errs[i] IN
     ~( /\ ErrCore(x) = ErrCore(y) /\ y.b = x.b /\ y.c = x.c /\ y.l = x.l /\ y.col = x.col
        /\ IF x.lt < 0 THEN y.lt = x.lt
           ELSE /\ x.lt < Len(p.a.toks)
                /\ p.a.toks[x.lt + 1].ty # "MacroSep"
                /\ y.lt = x.lt - SepCount(p.a.toks, x.lt + 1, 0) )}
\* index of the previous default-channel token (0 if none)
RECURSIVE PrevDefault(_, _)
PrevDefault(toks, i) ==
  IF i < 1 THEN 0 ELSE IF toks[i].ch = "DEFAULT" THEN i ELSE PrevDefault(toks, i - 1)
C18_placement(p) ==
  LET ts == p.a.toks IN
  {i \in 1..Len(ts) :
     /\ ts[i].ty = "MacroSep"
     /\ LET pd == PrevDefault(ts, i - 1) IN
        ~( /\ ts[i].ch = "DEFAULT" /\ ts[i].eb = ts[i].b /\ ts[i].pk = "n"
           /\ i < Len(ts) /\ ts[i+1].ty \in KwmStatTypes \cup {"MacroLabel"}
           /\ pd >= 1
           /\ ts[pd].ty \notin {"SEMI", "MacroLabel", "KwmThen", "KwmElse", "MacroSep"} )}

\* =====================================================================
\* C19  the result is a function of the source text
\* =====================================================================
C19_same(p) ==
  (IF p.a.ok = p.b.ok THEN {} ELSE {<<"returns", 0>>}) \cup
  (IF ~(p.a.ok /\ p.b.ok) THEN {}
   ELSE (IF p.a.toks = p.b.toks THEN {} ELSE {<<"tokens", Len(p.a.toks)>>}) \cup
        (IF p.a.rtoks = p.b.rtoks THEN {} ELSE {<<"resolved view", 0>>}) \cup
        (IF p.a.errs = p.b.errs THEN {} ELSE {<<"errors", Len(p.a.errs)>>}) \cup
        (IF p.a.lit = p.b.lit THEN {} ELSE {<<"literal buffer", 0>>}) \cup
        (IF p.a.nlines = p.b.nlines THEN {} ELSE {<<"lines", p.a.nlines>>}))
\* event streams of two hooked builds agree step by step
C19_events(p) ==
  IF ~(p.a.ok /\ p.b.ok) \/ p.a.events = <<>> \/ p.b.events = <<>> THEN {}
  ELSE (IF Len(p.a.events) = Len(p.b.events) THEN {} ELSE {0}) \cup
       {i \in 1..Min(Len(p.a.events), Len(p.b.events)) : p.a.events[i] # p.b.events[i]}

\* =====================================================================
\* C15  compositionality at closed boundaries
\* =====================================================================
\* index of the ';' that terminates a macro comment whose body starts at index i
\* (q: the quote character we are inside of, "" if none); 0 if it is not terminated
RECURSIVE MacroCommentEnd(_, _, _)
MacroCommentEnd(cs, i, q) ==
  IF i > Len(cs) THEN 0
  ELSE IF cs[i] = ";" /\ q = "" THEN i
  ELSE IF cs[i] \in {"'", "\""} THEN
         (IF q = "" THEN MacroCommentEnd(cs, i + 1, cs[i])
          ELSE IF q = cs[i] THEN MacroCommentEnd(cs, i + 1, "")
          ELSE MacroCommentEnd(cs, i + 1, q))
  ELSE MacroCommentEnd(cs, i + 1, q)

InitialConfig(c) ==
  /\ Len(c.modes) = 1 /\ c.modes[1].k = "Default"
  /\ c.nest = 0 /\ c.pend = <<0>> /\ ~c.ck.set
ClosedPrefix(a) ==
  /\ a.ok /\ ~a.budget_exceeded
  /\ InitialConfig(a.at_eof)
  /\ Len(a.toks) >= 2
  \* look-behind equivalent to the initial one: the last default-channel token is none or a SEMI
  /\ LET pd == PrevDefault(a.toks, Len(a.toks) - 1) IN pd = 0 \/ a.toks[pd].ty = "SEMI"
  /\ LET t == a.toks[Len(a.toks) - 1] IN
       /\ t.eb = a.len /\ t.eb > t.b
       /\ t.ty \in {"SEMI", "PredictedCommentStat", "MacroComment"}
       /\ a.cs[Len(a.cs)] = ";"
       \* the final ';' really terminates the comment (in a macro comment quotes mask it)
       /\ (t.ty = "MacroComment" => MacroCommentEnd(a.cs, t.c + 3, "") = Len(a.cs))
C15_applicable(p) == ClosedPrefix(p.a) /\ p.b.ok /\ p.ab.ok /\ p.b.bom = 0
                     /\ ~p.b.budget_exceeded /\ ~p.ab.budget_exceeded

\* shift a token of B by the extent of A
ShiftTok(p, y) ==
  LET A == p.a
      nA == Len(A.toks) - 1            \* tokens of A without EOF
      dl == A.nlines - 1
      dcol == A.cco[Len(A.cco)]        \* column at the end of A
  IN [ty |-> y.ty, ch |-> y.ch, pk |-> y.pk,
      b |-> y.b + A.len, eb |-> y.eb + A.len, c |-> y.c + A.nchars, ec |-> y.ec + A.nchars,
      l |-> y.l + dl, el |-> y.el + dl,
      col |-> IF y.l = 1 THEN y.col + dcol ELSE y.col,
      ecol |-> IF y.el = 1 THEN y.ecol + dcol ELSE y.ecol,
      i |-> y.i + nA,
      ps |-> IF y.pk = "s" THEN y.ps + A.litlen ELSE y.ps,
      pe |-> IF y.pk = "s" THEN y.pe + A.litlen ELSE y.pe,
      pvn |-> IF y.pk = "s" THEN "" ELSE y.pv, pt |-> y.pt]
ProjTok(x) ==
  [ty |-> x.ty, ch |-> x.ch, pk |-> x.pk, b |-> x.b, eb |-> x.eb, c |-> x.c, ec |-> x.ec,
   l |-> x.l, el |-> x.el, col |-> x.col, ecol |-> x.ecol, i |-> x.i, ps |-> x.ps, pe |-> x.pe,
   pvn |-> IF x.pk = "s" THEN "" ELSE x.pv, pt |-> x.pt]
ShiftErr(p, e) ==
  LET A == p.a IN
  [k |-> e.k, code |-> e.code, b |-> e.b + A.len, c |-> e.c + A.nchars, l |-> e.l + A.nlines - 1,
   col |-> IF e.l = 1 THEN e.col + A.cco[Len(A.cco)] ELSE e.col,
   lt |-> IF e.lt < 0 THEN Len(A.toks) - 2 ELSE e.lt + Len(A.toks) - 1]

C15_len(p) ==
  IF ~C15_applicable(p) THEN {} ELSE
  (IF Len(p.ab.toks) = Len(p.a.toks) - 1 + Len(p.b.toks) THEN {}
     ELSE {<<"tokens", Len(p.ab.toks), Len(p.a.toks) - 1 + Len(p.b.toks)>>}) \cup
  (IF Len(p.ab.errs) = Len(p.a.errs) + Len(p.b.errs) THEN {}
     ELSE {<<"errors", Len(p.ab.errs), Len(p.a.errs) + Len(p.b.errs)>>}) \cup
  (IF p.ab.nlines = p.a.nlines + p.b.nlines - 1 THEN {} ELSE {<<"lines", p.ab.nlines, 0>>}) \cup
  (IF p.ab.lit = p.a.lit \o p.b.lit THEN {} ELSE {<<"literal buffer", 0, 0>>})
C15_toks(p) ==
  IF ~C15_applicable(p) THEN {} ELSE
  LET nA == Len(p.a.toks) - 1 IN
  {i \in 1..Min(Len(p.ab.toks), nA + Len(p.b.toks)) :
     IF i <= nA THEN ProjTok(p.ab.toks[i]) # ProjTok(p.a.toks[i])
     ELSE ProjTok(p.ab.toks[i]) # ShiftTok(p, p.b.toks[i - nA])}
C15_errs(p) ==
  IF ~C15_applicable(p) THEN {} ELSE
  LET nA == Len(p.a.errs) IN
  {i \in 1..Min(Len(p.ab.errs), nA + Len(p.b.errs)) :
     IF i <= nA THEN p.ab.errs[i] # p.a.errs[i]
     ELSE p.ab.errs[i] # ShiftErr(p, p.b.errs[i - nA])}
=============================================================================
