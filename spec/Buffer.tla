------------------------------- MODULE Buffer -------------------------------
(***************************************************************************)
(* The output buffer as data, with the *formulas of the code* for the two  *)
(* views a user has of it (crates/sas-lexer/src/lexer/buffer.rs):          *)
(*   - the per-token accessors get_token_end_line / get_token_end_column / *)
(*     get_token_start_column ...                                          *)
(*   - the bulk view into_resolved_token_vec (what is serialized to Python)*)
(* and the reference: line and column of a position of the text (7.1).     *)
(*                                                                         *)
(* A buffer is [toks, lines]: toks[i] = [c, line] (character start and     *)
(* 0-based line index), lines[l] = character position of the line start.   *)
(* (Byte offsets are the image of character positions under a strictly     *)
(* monotone map; every comparison the code makes between byte offsets is   *)
(* a comparison between two token/line starts, so characters suffice.)     *)
(***************************************************************************)
EXTENDS Integers, Sequences, FiniteSets

NTok(B) == Len(B.toks)
Start(B, i) == B.toks[i].c
\* get_token_end: start of the next token, or of the token itself for the last (EOF)
End(B, i) == IF i < NTok(B) THEN B.toks[i+1].c ELSE B.toks[i].c

\* ---- accessors ----------------------------------------------------------
AccStartLine(B, i) == B.toks[i].line + 1
AccStartCol(B, i)  == Start(B, i) - B.lines[B.toks[i].line + 1]
\* get_token_end_line: for the last token its start line; otherwise the next token's line index, plus one
\* if the next token does not start at its line start or this token is empty
AccEndLine(B, i) ==
  IF i = NTok(B) THEN AccStartLine(B, i)
  ELSE LET nx == B.toks[i+1] IN
       nx.line + (IF nx.c > B.lines[nx.line + 1] \/ Start(B, i) = End(B, i) THEN 1 ELSE 0)
AccEndCol(B, i) == End(B, i) - B.lines[AccEndLine(B, i)]

\* ---- bulk view ----------------------------------------------------------
BulkEndLineIdx(B, i) ==
  IF i = NTok(B) THEN B.toks[i].line
  ELSE LET nx == B.toks[i+1] IN
       nx.line - (IF nx.c = B.lines[nx.line + 1] /\ Start(B, i) < nx.c THEN 1 ELSE 0)
Bulk(B, i) ==
  [start |-> Start(B, i), stop |-> End(B, i), line |-> B.toks[i].line + 1,
   column |-> Start(B, i) - B.lines[B.toks[i].line + 1],
   end_line |-> BulkEndLineIdx(B, i) + 1,
   end_column |-> End(B, i) - B.lines[BulkEndLineIdx(B, i) + 1]]
Acc(B, i) ==
  [start |-> Start(B, i), stop |-> End(B, i), line |-> AccStartLine(B, i), column |-> AccStartCol(B, i),
   end_line |-> AccEndLine(B, i), end_column |-> AccEndCol(B, i)]

\* ---- reference (7.1) ----------------------------------------------------
\* line (1-based) of character position p: the last line whose start is <= p
LineOfPos(B, p) == CHOOSE l \in 1..Len(B.lines) :
                      B.lines[l] <= p /\ (l = Len(B.lines) \/ B.lines[l+1] > p)
Ref(B, i) ==
  LET s == Start(B, i)  e == End(B, i)
      el == IF e = s THEN LineOfPos(B, s) ELSE LineOfPos(B, e - 1) IN
  [start |-> s, stop |-> e, line |-> LineOfPos(B, s), column |-> s - B.lines[LineOfPos(B, s)],
   end_line |-> el, end_column |-> e - B.lines[el]]
=============================================================================
