#!/bin/sh
# Run once after a fresh restore (offline): builds every harness variant from /repo's
# working tree and parses every TLA+ module.
set -e
cd "$(dirname "$0")"
mkdir -p work evidence replays
python3 - <<'PY'
import sys
sys.path.insert(0, 'lib')
import common
for v in ['dbg', 'rel', 'nosep', 'plain', 'nightly']:
    common.build(v)
PY
cd spec
for f in *.tla; do
  [ "$f" = "BufferProof.tla" ] && continue   # a proof module (EXTENDS TLAPS): parsed and checked by tlapm in ./check C05
  tla-sany "$f" > ../work/sany.log 2>&1 || { cat ../work/sany.log; echo "SANY failed on $f"; exit 1; }
done
cd ..
python3 - <<'PY'
import sys
sys.path.insert(0, 'lib')
import props
n = props.build_cover()
print("transition cover: %d inputs" % n)
PY
echo "setup ok"
