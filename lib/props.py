"""Per-property check procedures (DESIGN.md section 8)."""
import json
import os
import random
import shutil
import time

import common
import gen
from common import ToolError, log

CHUNK = 1500  # cases per trace file / TLC process


class Ctx:
    def __init__(self, prop, tier, seed, keep=False):
        self.prop, self.tier, self.seed, self.keep = prop, tier, seed, keep
        self.rng = random.Random("%s/%s" % (prop, seed))
        self.dir = os.path.join(common.WORK, prop)
        shutil.rmtree(self.dir, ignore_errors=True)
        os.makedirs(self.dir, exist_ok=True)
        self.t0 = time.time()
        self.cases = {}          # id -> case dict
        self.violations = []     # (clause, case id, detail, variant)
        self.known_hits = []
        self.states = 0
        self.transitions = 0
        self.traces = 0
        self.evals = 0
        self.families = {}
        self.samples = []
        self.extra = {}
        self.nontrivial = set()

    def quick(self):
        return self.tier == "quick"

    def add_cases(self, fam, srcs):
        out = []
        n0 = len(self.cases)
        seen = self.extra.setdefault("_seen", set())
        for s in srcs:
            if not gen.valid_utf8(s) or s in seen:
                continue
            seen.add(s)
            cid = "%s-%d" % (fam, len(self.cases))
            c = {"id": cid, "src": s, "fam": fam}
            self.cases[cid] = c
            out.append(c)
        self.families[fam] = self.families.get(fam, 0) + len(self.cases) - n0
        return out


def base_inputs(ctx, soup_n, trunc_n=0, lf_n=0, mb_n=0, case_n=0, corpus_trunc=0):
    """The shared input sources of DESIGN.md section 5 (4: corpus, 5: random driver, 3: derived)."""
    rng = ctx.rng
    corp = [s for _, s in gen.corpus()]
    ctx.add_cases("corpus", corp)
    ctx.add_cases("regress", regression_inputs())
    sp = gen.soup(rng, soup_n)
    ctx.add_cases("soup", sp)
    pool = corp + sp
    if trunc_n:
        tr = []
        for s in rng.sample(pool, min(len(pool), trunc_n)):
            if s:
                tr.extend(gen.truncations(s, rng, limit=6))
        ctx.add_cases("trunc", tr)
    if corpus_trunc:
        tr = []
        for s in corp:
            if len(s) <= corpus_trunc:
                tr.extend(gen.truncations(s))
        ctx.add_cases("ctrunc", tr)
    if lf_n:
        lf = []
        for s in rng.sample(pool, min(len(pool), lf_n)):
            lf.extend(gen.lf_injections(s, rng, limit=4))
        ctx.add_cases("lf", lf)
    if mb_n:
        ctx.add_cases("mb", [gen.multibyte_inject(s, rng) for s in rng.sample(pool, min(len(pool), mb_n))])
    if case_n:
        ctx.add_cases("case", [gen.case_mangle(s, rng) for s in rng.sample(pool, min(len(pool), case_n))])


def regression_inputs():
    """Minimal inputs of every finding ever made (fixed or known) stay in the corpus."""
    k = common.load_known()
    out = []
    for f in k.get("findings", []) + k.get("fixed", []):
        for key in ("source", "regression_source"):
            if key in f:
                out.append(f[key])
        out.extend(f.get("regression_sources", []))
    return out


def run_variant(ctx, variant, cases, events, tag=None):
    """Builds the variant, runs the cases, returns the list of trace chunk paths."""
    binp = common.build(variant)
    tag = tag or variant
    paths = []
    cases = list(cases)
    for ci in range(0, len(cases), CHUNK):
        chunk = cases[ci:ci + CHUNK]
        cin = os.path.join(ctx.dir, "cases-%s-%d.ndjson" % (tag, ci // CHUNK))
        cout = os.path.join(ctx.dir, "trace-%s-%d.ndjson" % (tag, ci // CHUNK))
        common.write_cases(cin, chunk)
        r = common.lexrun(binp, cin, cout, events=events, chars=True, timeout=600)
        if r["timeout"] or r["rc"] != 0:
            # the process died or hung: find the culprit case by bisection-free rerun one by one
            bad = isolate_crash(ctx, binp, chunk, events)
            if bad is None:
                raise ToolError("lexrun failed without a reproducible culprit: %s" % r["out"][-500:])
            ctx.violations.append(("C01_process", bad["id"], "lexrun %s" % ("hung" if r["timeout"] else "died"), variant))
            rest = [c for c in chunk if c["id"] != bad["id"]]
            common.write_cases(cin, rest)
            r = common.lexrun(binp, cin, cout, events=events, chars=True, timeout=600)
            if r["timeout"] or r["rc"] != 0:
                raise ToolError("lexrun failed twice on chunk %s" % cin)
        paths.append(cout)
        ctx.evals += len(chunk)
    return paths


def isolate_crash(ctx, binp, chunk, events):
    one_in = os.path.join(ctx.dir, "one.ndjson")
    one_out = os.path.join(ctx.dir, "one.out.ndjson")
    for c in chunk:
        common.write_cases(one_in, [c])
        r = common.lexrun(binp, one_in, one_out, events=events, chars=True, timeout=20)
        if r["timeout"] or r["rc"] != 0:
            return c
    return None


def judge(ctx, variant, mon):
    """Turns monitor verdicts into violations / known findings."""
    ctx.states += mon["states"]
    ctx.transitions += mon["transitions"]
    ctx.traces += mon["records"]
    known = common.load_known()
    for cid, clause, count, witness in mon["verdicts"]:
        case = ctx.cases.get(cid, {"id": cid, "src": ""})
        hit = None
        for f in known.get("findings", []):
            if common.finding_matches(f, ctx.prop, clause, case):
                hit = f
                break
        if hit is not None:
            ctx.known_hits.append((hit, clause, cid))
        else:
            ctx.violations.append((clause, cid, "count=%s witness=%s" % (count, witness), variant))


def finish(ctx, level, rule, assumptions, explanation=None):
    """Prints verdict lines, writes evidence, returns the exit code."""
    printed = set()
    for f, clause, cid in ctx.known_hits:
        key = f.get("id", f.get("what"))
        if key in printed:
            continue
        printed.add(key)
        print("KNOWN-FINDING: property=%s %s" % (ctx.prop, f["what"]), flush=True)
    # group violations by clause, print the shortest source per clause first
    rc = 0
    byclause = {}
    for clause, cid, detail, variant in ctx.violations:
        byclause.setdefault(clause, []).append((cid, detail, variant))
    for clause, lst in sorted(byclause.items()):
        lst.sort(key=lambda x: len(ctx.cases.get(x[0], {}).get("src", "")))
        for cid, detail, variant in lst[:3]:
            case = ctx.cases.get(cid, {"id": cid, "src": ""})
            path = common.write_replay(ctx.prop, clause, case, detail, variant)
            print("VIOLATION property=%s replay=%s" % (ctx.prop, path), flush=True)
            print("  clause=%s variant=%s %s source=%r" % (clause, variant, detail, case.get("src", "")[:200]),
                  flush=True)
            rc = 1
        if len(lst) > 3:
            print("  (%d more cases violate %s)" % (len(lst) - 3, clause), flush=True)
    cov = {
        "states": max(ctx.states, 0),
        "transitions": max(ctx.transitions, 0),
        "traces_validated_against_impl": ctx.traces,
        "evaluations": ctx.evals,
        "distinct_nontrivial": len([c for c in ctx.cases.values() if nontrivial(c["src"])]),
        "rule": rule,
        "samples": ctx.samples[:8] or [c["src"] for c in list(ctx.cases.values())[:5]],
        "families": ctx.families,
        "known_findings_hit": sorted({f.get("id", f.get("what")) for f, _, _ in ctx.known_hits}),
        "exhaustive": False,
    }
    for k, v in ctx.extra.items():
        if not k.startswith("_"):
            cov[k] = v
    if explanation:
        cov["explanation"] = explanation
    common.write_evidence(ctx.prop, ctx.tier, ctx.seed, level, cov, time.time() - ctx.t0,
                          len(ctx.violations), assumptions)
    if not ctx.keep:
        for fn in os.listdir(ctx.dir):
            if fn.endswith(".ndjson"):
                os.remove(os.path.join(ctx.dir, fn))
    log("[%s] %s: %d cases, %d traces judged, %d violations, %d known-finding hits, %.1fs" % (
        ctx.prop, ctx.tier, len(ctx.cases), ctx.traces, len(ctx.violations), len(ctx.known_hits),
        time.time() - ctx.t0))
    return rc


def nontrivial(src):
    """A case is non-trivial if it has at least two characters that are not white space."""
    return len([c for c in src if not c.isspace()]) >= 2


def pick_samples(ctx, n=6):
    ids = list(ctx.cases)
    ctx.rng.shuffle(ids)
    ctx.samples = [{"id": i, "src": ctx.cases[i]["src"][:160]} for i in ids[:n]]


# ----------------------------------------------------------------------------- generic

GENERIC = {
    # prop: (quick sizes, thorough sizes, events)
    "C01": dict(q=dict(soup_n=5000, trunc_n=600, mb_n=300), t=dict(soup_n=60000, trunc_n=6000, mb_n=3000, corpus_trunc=400), events=True),
    "C02": dict(q=dict(soup_n=4000, trunc_n=300, mb_n=800), t=dict(soup_n=50000, trunc_n=4000, mb_n=8000), events=True),
    "C03": dict(q=dict(soup_n=3000, mb_n=2500, trunc_n=200), t=dict(soup_n=40000, mb_n=30000, trunc_n=2000), events=True),
    "C04": dict(q=dict(soup_n=3000, lf_n=1200, mb_n=300), t=dict(soup_n=40000, lf_n=15000, mb_n=3000), events=True),
    "C05": dict(q=dict(soup_n=3000, lf_n=1200, mb_n=300), t=dict(soup_n=40000, lf_n=15000, mb_n=3000), events=False),
    "C06": dict(q=dict(soup_n=5000, trunc_n=400, mb_n=500, case_n=300), t=dict(soup_n=60000, trunc_n=5000, mb_n=5000, case_n=3000), events=False),
    "C07": dict(q=dict(soup_n=3000, trunc_n=300, mb_n=300, extra=dict(string_family=5000)), t=dict(soup_n=30000, trunc_n=3000, mb_n=3000, extra=dict(string_family=80000)), events="all"),
    "C08": dict(q=dict(soup_n=2000, extra=dict(num_family=6000)), t=dict(soup_n=20000, extra=dict(num_family=150000)), events=False),
    "C09": dict(q=dict(soup_n=5000, trunc_n=600), t=dict(soup_n=60000, trunc_n=6000, corpus_trunc=400), events=False),
    "C10": dict(q=dict(soup_n=5000, trunc_n=800), t=dict(soup_n=60000, trunc_n=8000, corpus_trunc=400), events=False),
}

RULES = {
    "generic": "inputs: repository inline test strings and sample programs, regression inputs of all "
               "findings, seeded fragment soup (5 profiles), and derived families (truncations, LF "
               "injection, multi-byte injection); each is lexed by the real code (debug-assertion and "
               "optimized builds) and every clause of the property is evaluated by TLC (TraceMon) on "
               "the recorded result and per-iteration events; distinct = distinct source strings, "
               "non-trivial = at least two non-blank characters",
}


def run_generic(ctx):
    cfg = GENERIC[ctx.prop]
    sizes = dict(cfg["q"] if ctx.quick() else cfg["t"])
    extra = sizes.pop("extra", None)
    base_inputs(ctx, **sizes)
    if extra:
        for fam, n in extra.items():
            ctx.add_cases(fam, getattr(gen, fam)(ctx.rng, n))
    pick_samples(ctx)
    cases = list(ctx.cases.values())
    for variant in ("dbg", "rel"):
        ev = cfg["events"] == "all" or (cfg["events"] and (variant == "dbg" or not ctx.quick()))
        paths = run_variant(ctx, variant, cases, events=ev)
        mon = common.monitor(ctx.prop, paths, ctx.dir, workers_each=2, parallel=8)
        judge(ctx, variant, mon)
        log("[%s] %s: %d records monitored in %.1fs, %d verdict lines" % (
            ctx.prop, variant, mon["records"], mon["wall"], len(mon["verdicts"])))
    return finish(ctx, "model_checking", RULES["generic"],
                  ["position tables (byte offset, line, column per code point) come from the harness and are "
                   "re-derived locally by the TLA+ predicate CertOK before use",
                   "non-ASCII character classes come from Rust's char::is_whitespace and unicode-ident",
                   "bounded: the inputs explored are a finite sample plus TLC-enumerated families"])


def run(prop, tier, seed, replay=None, keep=False):
    ctx = Ctx(prop, tier, seed, keep=keep)
    if replay:
        return run_replay(ctx, replay)
    if prop in GENERIC:
        return run_generic(ctx)
    raise ToolError("no check registered for %s" % prop)


def run_replay(ctx, path):
    with open(path, encoding="utf-8") as f:
        rp = json.load(f)
    case = rp["case"]
    ctx.cases[case["id"]] = case
    variant = rp.get("variant", "dbg")
    if variant not in common.VARIANTS:
        variant = "dbg"
    paths = run_variant(ctx, variant, [case], events=True)
    mon = common.monitor(ctx.prop, paths, ctx.dir, workers_each=1, parallel=1)
    for v in mon["verdicts"]:
        print("VERDICT %s" % (v,), flush=True)
    judge(ctx, variant, mon)
    rc = 0
    for clause, cid, detail, variant in ctx.violations:
        print("VIOLATION property=%s replay=%s" % (ctx.prop, path), flush=True)
        rc = 1
    return rc
