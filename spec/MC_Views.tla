------------------------------ MODULE MC_Views ------------------------------
(***************************************************************************)
(* C05 at the design level: for *every* buffer that satisfies the buffer   *)
(* invariant (what the lexer can produce: token starts non-decreasing,     *)
(* each token's line is the line its start lies on, one line start after   *)
(* every line feed, the last token is the EOF at the end of the text) over *)
(* a text of at most N characters with at most L line feeds and at most   *)
(* K tokens, the bulk view equals the accessors, and both equal the        *)
(* reference of DESIGN.md 7.1.                                             *)
(* The state space is enumerated by TLC: Init picks the text shape (length, *)
(* BOM, positions of line feeds) and the token starts.                     *)
(***************************************************************************)
EXTENDS Buffer, TLC

CONSTANTS N, K

VARIABLES B

\* line starts for a text of length n with BOM flag bom and line feeds at the positions of set lf
\* (lf: set of 1-based character indices of the LF characters)
LineStarts(bom, lf) ==
  LET k == Cardinality(lf)
      sorted == [i \in 1..k |-> CHOOSE x \in lf : Cardinality({y \in lf : y < x}) = i - 1]
  IN <<bom>> \o [i \in 1..k |-> sorted[i]]      \* the line after the LF at index x starts at position x

\* all non-decreasing sequences of m token starts in bom..n ending with the EOF at n
RECURSIVE NonDec(_, _, _)
NonDec(lo, hi, m) ==
  IF m = 0 THEN {<<>>}
  ELSE UNION {{<<x>> \o s : s \in NonDec(x, hi, m - 1)} : x \in lo..hi}

Init ==
  \E n \in 0..N : \E bom \in {0, 1} : \E lf \in SUBSET ((bom + 1)..n) : \E m \in 1..K :
     /\ bom <= n
     /\ \E st \in NonDec(bom, n, m - 1) :
          LET lines == LineStarts(bom, lf)
              starts == st \o <<n>>
              \* the first token starts right after the BOM (tiling, C02)
              ok == starts[1] = bom
              lineIdx(p) == Cardinality({x \in lf : x <= p})     \* 0-based line of position p
          IN /\ ok
             /\ B = [lines |-> lines, toks |-> [i \in 1..m |-> [c |-> starts[i], line |-> lineIdx(starts[i])]]]
Next == UNCHANGED B
Spec == Init /\ [][Next]_B

ViewsAgree == \A i \in 1..NTok(B) : Bulk(B, i) = Acc(B, i)
ViewsMatchText == \A i \in 1..NTok(B) : Acc(B, i) = Ref(B, i)
=============================================================================
