------------------------------ MODULE GenProps ------------------------------
(***************************************************************************)
(* C12, C13, C14: clauses over the result of lexing a program produced by  *)
(* the construct-grammar generator (spec/Gen.tla).  The case record        *)
(* carries, besides the lexer's output, the generator's expectations       *)
(* (r.exps) and its deletion fault (r.fault).                              *)
(***************************************************************************)
EXTENDS OpenCode

\* index of the token covering character position q (0-based); 0 if none
RECURSIVE TokAt(_, _, _)
TokAt(toks, q, i) ==
  IF i > Len(toks) THEN 0
  ELSE IF toks[i].c <= q /\ q < toks[i].ec THEN i ELSE TokAt(toks, q, i + 1)
\* index of a token that starts at position q with length n (prefers the non-empty one)
TokStarting(toks, q, n) ==
  LET S == {i \in 1..Len(toks) : toks[i].c = q /\ toks[i].ec = q + n} IN
  IF S = {} THEN 0 ELSE CHOOSE i \in S : TRUE

DelimTypes == {"COMMA", "ASSIGN", "SEMI", "LPAREN", "RPAREN"}
DelimChars == {",", "=", ";", "(", ")"}

\* ---- C12 ---------------------------------------------------------------
C12_no_errors(r) == {i \in 1..Len(r.errs) : TRUE}
C12_config(r) == IF InitialConfig(r.at_eof) THEN {} ELSE {Len(r.at_eof.modes)}
C12_last_token(r) ==   \* the look-behind part of the snapshot: nothing pending
  IF r.at_eof.lt \in {"SEMI", "WS", "CStyleComment", "PredictedCommentStat", "MacroComment", "COLON", "None"}
    THEN {} ELSE {r.at_eof.lt}

\* ---- C13 ---------------------------------------------------------------
ExpOK(r, e) ==
  CASE e.k = "tok" ->
         LET i == TokStarting(r.toks, e.o, e.n) IN
         i # 0 /\ r.toks[i].ty = e.ty /\ r.toks[i].ch = e.ch
    [] e.k = "inside" ->
         \A q \in e.o..(e.o + e.n - 1) :
            r.cs[q + 1] \in DelimChars =>
               LET i == TokAt(r.toks, q, 1) IN i # 0 /\ r.toks[i].ty \notin DelimTypes
    [] e.k = "ws" ->
         \A q \in e.o..(e.o + e.n - 1) :
            LET i == TokAt(r.toks, q, 1) IN
            /\ i # 0
            /\ IF IsWs(r.cs[q + 1], r.cc[q + 1]) /\ (e.ty \in {" ", "\n"} \/ q = e.o \/ q = e.o + e.n - 1)
                 THEN r.toks[i].ty = "WS" /\ r.toks[i].ch = "HIDDEN"
                 ELSE r.toks[i].ty = "CStyleComment" /\ r.toks[i].ch = "COMMENT"
    [] OTHER -> FALSE
C13_expect(r) == {j \in 1..Len(r.exps) : ~ExpOK(r, r.exps[j])}

\* ---- C14 ---------------------------------------------------------------
\* index after the run of white space and complete C-style comments starting at index i
RECURSIVE WsCommentRunEnd(_, _, _)
WsCommentRunEnd(cs, cc, i) ==
  IF i > Len(cs) THEN i
  ELSE IF IsWs(cs[i], cc[i]) THEN WsCommentRunEnd(cs, cc, i + 1)
  ELSE IF cs[i] = "/" /\ i + 1 <= Len(cs) /\ cs[i+1] = "*" THEN
         LET cl == CommentClose(cs, i + 2) IN IF cl = 0 THEN Len(cs) + 1 ELSE WsCommentRunEnd(cs, cc, cl + 2)
  ELSE i

FaultErr(k) ==
  CASE k = "assign" -> <<"MissingExpectedAssign", "ASSIGN">>
    [] k = "lparen" -> <<"MissingExpectedLParen", "LPAREN">>
    [] k = "comma"  -> <<"MissingExpectedComma", "COMMA">>
    [] k = "fslash" -> <<"MissingExpectedFSlash", "FSLASH">>
    [] k = "semi"   -> <<"MissingExpectedSemiOrEOF", "SEMI">>
    [] k = "rparen" -> <<"MissingExpectedRParen", "RPAREN">>
    [] OTHER -> <<"", "">>
FaultChar(k) ==
  CASE k = "assign" -> "=" [] k = "lparen" -> "(" [] k = "fslash" -> "/" [] k = "semi" -> ";" [] OTHER -> ""
\* where the diagnostic is expected (character position), -1 if the fault is void
FaultAt(r) ==
  LET f == r.fault IN
  CASE f.kind = "comma"  -> f.closeAt
    [] f.kind = "rparen" -> N(r)
    [] f.kind \in {"assign", "lparen", "fslash", "semi"} ->
         LET x == WsCommentRunEnd(r.cs, r.cc, f.o + 1) - 1 IN
         IF f.kind = "semi" /\ x >= N(r) THEN 0 - 1
         \* the same character comes next: it takes the place of the omitted one
         ELSE IF x < N(r) /\ r.cs[x + 1] = FaultChar(f.kind) THEN 0 - 1
         \* a "(" after a name expression that may end in a macro call is that call's argument list
         ELSE IF f.kind = "assign" /\ x < N(r) /\ r.cs[x + 1] = "(" THEN 0 - 1
         ELSE x
    [] OTHER -> 0 - 1
C14_applicable(r) == FaultAt(r) >= 0
C14_diag(r) ==
  LET x == FaultAt(r)  ke == FaultErr(r.fault.kind) IN
  IF x < 0 THEN {}
  ELSE (IF \E i \in 1..Len(r.errs) : r.errs[i].k = ke[1] /\ r.errs[i].c = x THEN {}
        ELSE {<<"no error", ke[1], x>>}) \cup
       (IF \E i \in 1..NT(r) : r.toks[i].ty = ke[2] /\ r.toks[i].c = x /\ r.toks[i].ec = x THEN {}
        ELSE {<<"no zero-width token", ke[2], x>>}) \cup
       \* a program cut short with n parentheses open (outside double quotes): one recovery token for each
       (IF r.fault.kind = "rparen" /\ r.fault.nopen > 0 /\
           Cardinality({i \in 1..NT(r) : r.toks[i].ty = "RPAREN" /\ r.toks[i].c = x /\ r.toks[i].ec = x}) # r.fault.nopen
          THEN {<<"recovery tokens", r.fault.nopen>>} ELSE {})
=============================================================================
