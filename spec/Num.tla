-------------------------------- MODULE Num --------------------------------
(***************************************************************************)
(* C08: the numeric-literal grammar of DESIGN.md 7.4 as a function of the  *)
(* source text at a position, and the value of a literal as decimal digit  *)
(* sequences (TLC's 32-bit integers are never used for values).            *)
(***************************************************************************)
EXTENDS Unquote

DigitVal(c) == HexVal(c)

\* index just after the maximal run of characters of S starting at index i
RECURSIVE RunEnd(_, _, _)
RunEnd(cs, i, S) == IF i <= Len(cs) /\ cs[i] \in S THEN RunEnd(cs, i + 1, S) ELSE i

\* ---------------------------------------------------------------- grammar
\* Decimal match at index p (cs[p] is a digit, or "." followed by a digit).
\* Result: end (index after the match), kind, the index ranges of the parts.
DecMatch(cs, p) ==
  LET n == Len(cs)
      a == IF cs[p] = "." THEN p ELSE RunEnd(cs, p, Digits)            \* after integer part
      b == IF a <= n /\ cs[a] = "." THEN RunEnd(cs, a + 1, Digits) ELSE a  \* after fraction
      hasDot == b > a
      hasMark == b <= n /\ cs[b] \in {"e", "E"}
      s == IF hasMark /\ b + 1 <= n /\ cs[b + 1] \in {"+", "-"} THEN b + 2 ELSE b + 1
      d == IF hasMark THEN RunEnd(cs, s, Digits) ELSE b
  IN
  IF hasMark /\ d > s THEN
       [end |-> d, kind |-> "exp", ia |-> p, ib |-> a, fa |-> a + 1, fb |-> b, hasDot |-> hasDot,
        neg |-> cs[b + 1] = "-", ea |-> s, eb |-> d]
  ELSE IF hasMark THEN
       [end |-> s, kind |-> "emptyexp", ia |-> p, ib |-> a, fa |-> a + 1, fb |-> b, hasDot |-> hasDot,
        neg |-> FALSE, ea |-> s, eb |-> s]
  ELSE [end |-> b, kind |-> IF hasDot THEN "dot" ELSE "int", ia |-> p, ib |-> a, fa |-> a + 1,
        fb |-> b, hasDot |-> hasDot, neg |-> FALSE, ea |-> b, eb |-> b]

\* strip leading "0" characters of cs[lo..hi-1]; result as a sequence of digit values
RECURSIVE FirstNonZero(_, _, _)
FirstNonZero(cs, lo, hi) == IF lo < hi /\ cs[lo] = "0" THEN FirstNonZero(cs, lo + 1, hi) ELSE lo
DigitsOf(cs, lo, hi) == [i \in 1..(hi - lo) |-> DigitVal(cs[lo + i - 1])]   \* cs[lo..hi-1]

U64Max == <<1,8,4,4,6,7,4,4,0,7,3,7,0,9,5,5,1,6,1,5>>
\* lexicographic comparison of equal-length digit sequences: -1, 0, 1
RECURSIVE CmpFrom(_, _, _)
CmpFrom(a, b, i) ==
  IF i > Len(a) THEN 0
  ELSE IF a[i] < b[i] THEN 0 - 1 ELSE IF a[i] > b[i] THEN 1 ELSE CmpFrom(a, b, i + 1)
FitsU64Dec(ds) ==   \* ds without leading zeros
  Len(ds) < 20 \/ (Len(ds) = 20 /\ CmpFrom(ds, U64Max, 1) <= 0)

\* What the grammar says about the numeric literal that starts at index p.
RefNum(cs, p) ==
  LET n == Len(cs)
      D == DecMatch(cs, p)
      canHex == cs[p] # "."
      h == IF canHex THEN RunEnd(cs, p, HexDigits) ELSE p
      dlen == D.end - p
      hlen == h - p
      hasX == h <= n /\ cs[h] \in {"x", "X"}
  IN
  IF ~canHex \/ dlen > hlen \/ (dlen = hlen /\ ~hasX) THEN
       \* decimal
       IF D.kind = "emptyexp" THEN
            [end |-> D.end, ty |-> "FloatLiteral", errs |-> {"InvalidNumericLiteral"}, form |-> "bad", D |-> D]
       ELSE IF D.kind = "exp" THEN
            [end |-> D.end, ty |-> "FloatExponentLiteral", errs |-> {}, form |-> "float", D |-> D]
       ELSE IF D.kind = "dot" THEN
            [end |-> D.end, ty |-> "FloatLiteral", errs |-> {}, form |-> "float", D |-> D]
       ELSE LET z == FirstNonZero(cs, p, D.end) IN
            IF FitsU64Dec(DigitsOf(cs, z, D.end))
              THEN [end |-> D.end, ty |-> "IntegerLiteral", errs |-> {}, form |-> "decint", D |-> D]
              ELSE [end |-> D.end, ty |-> "FloatLiteral", errs |-> {}, form |-> "float", D |-> D]
  ELSE \* hexadecimal
       LET z == FirstNonZero(cs, p, h)
           fits == h - z <= 16
           e1 == IF fits THEN {} ELSE {"InvalidNumericLiteral"}
           e2 == IF hasX THEN {} ELSE {"UnterminatedHexNumericLiteral"}
       IN [end |-> IF hasX THEN h + 1 ELSE h,
           ty |-> IF fits THEN "IntegerLiteral" ELSE "FloatLiteral",
           errs |-> e1 \cup e2, form |-> IF fits THEN "hexint" ELSE "bad", D |-> D, hend |-> h]

NumErrKinds == {"InvalidNumericLiteral", "UnterminatedHexNumericLiteral"}
ErrsAt(r, i) == {r.errs[e].k : e \in {e \in 1..Len(r.errs) : r.errs[e].lt = i /\ r.errs[e].k \in NumErrKinds}}

NumIdx(r) == {i \in 1..NT(r) : r.toks[i].ty \in NumTypes}

\* type, extent and errors of every numeric token are the grammar's
C08_extent_type(r) ==
  {i \in NumIdx(r) : LET t == r.toks[i]  R == RefNum(r.cs, t.c + 1) IN
     ~( /\ R.end = t.ec + 1
        /\ R.ty = t.ty
        /\ R.errs = ErrsAt(r, t.i) )}

\* ---------------------------------------------------------------- integers
\* little-endian multiply-add on decimal digit sequences: ds * m + c
RECURSIVE MulAddLE(_, _, _, _, _)
MulAddLE(ds, i, m, c, acc) ==
  IF i > Len(ds) THEN (IF c = 0 THEN acc ELSE MulAddLE(ds, i, m, c \div 10, Append(acc, c % 10)))
  ELSE LET v == ds[i] * m + c IN MulAddLE(ds, i + 1, m, v \div 10, Append(acc, v % 10))
Reverse(s) == [i \in 1..Len(s) |-> s[Len(s) + 1 - i]]
\* hex digit characters cs[lo..hi-1] -> decimal digits, little-endian
RECURSIVE HexToDecLE(_, _, _, _)
HexToDecLE(cs, lo, hi, acc) ==
  IF lo >= hi THEN acc ELSE HexToDecLE(cs, lo + 1, hi, MulAddLE(acc, 1, 16, HexVal(cs[lo]), <<>>))
Canon(ds) == IF ds = <<>> THEN <<0>> ELSE ds    \* MSB-first digits of a natural number

\* the value of an integer literal (R = RefNum(cs, p), form decint or hexint) as MSB-first decimal digits
IntDigits(cs, p, R) ==
  IF R.form = "decint" THEN Canon(DigitsOf(cs, FirstNonZero(cs, p, R.end), R.end))
  ELSE Canon(Reverse(HexToDecLE(cs, p, R.hend, <<>>)))
C08_int_value(r) ==
  {i \in NumIdx(r) : LET t == r.toks[i]  R == RefNum(r.cs, t.c + 1) IN
     /\ ErrsAt(r, t.i) = {} /\ R.errs = {} /\ t.ty = "IntegerLiteral" /\ R.ty = "IntegerLiteral"
     /\ ~(t.pk = "i" /\ t.pi = IntDigits(r.cs, t.c + 1, R))}

\* ---------------------------------------------------------------- floats
\* natural numbers as MSB-first digit sequences
Zeros(k) == [i \in 1..k |-> 0]
PadL(a, L) == Zeros(L - Len(a)) \o a
RECURSIVE AddFrom(_, _, _, _, _)
AddFrom(a, b, i, c, acc) ==   \* a, b of equal length; from index i down to 1
  IF i < 1 THEN (IF c = 0 THEN acc ELSE <<c>> \o acc)
  ELSE LET v == a[i] + b[i] + c IN AddFrom(a, b, i - 1, v \div 10, <<v % 10>> \o acc)
Add(a, b) == LET L == IF Len(a) > Len(b) THEN Len(a) ELSE Len(b)
             IN AddFrom(PadL(a, L), PadL(b, L), L, 0, <<>>)
Cmp(a, b) == LET L == IF Len(a) > Len(b) THEN Len(a) ELSE Len(b)
             IN CmpFrom(PadL(a, L), PadL(b, L), 1)
IsZero(a) == \A i \in 1..Len(a) : a[i] = 0

\* exponent digits -> integer, capped at 99999
RECURSIVE SmallNat(_, _, _, _)
SmallNat(cs, lo, hi, acc) ==
  IF lo >= hi THEN acc
  ELSE IF acc > 9999 THEN 99999 ELSE SmallNat(cs, lo + 1, hi, acc * 10 + DigitVal(cs[lo]))

\* 2^1024 - 2^970: literals at or above round to infinity
InfThreshold == Split("179769313486231580793728971405303415079934132710037826936173778980444968292764750946649017977587207096330286416692887910946555547851940402630657488671505820681908902000708383676273854845817711531764475730270069855571366959622842914819860834936475292719074168444365510704342711559699508093042880177904174497792")
InfThresholdD == [i \in 1..Len(InfThreshold) |-> DigitVal(InfThreshold[i])]

\* literal as (mantissa digits, decimal exponent): value = int(m) * 10^e
LitNum(cs, D) ==
  LET m == DigitsOf(cs, D.ia, D.ib) \o (IF D.hasDot THEN DigitsOf(cs, D.fa, D.fb) ELSE <<>>)
      fl == IF D.hasDot THEN D.fb - D.fa ELSE 0
      ex == IF D.kind = "exp" THEN SmallNat(cs, D.ea, D.eb, 0) ELSE 0
  IN [m |-> m, e |-> (IF D.neg THEN 0 - ex ELSE ex) - fl]

\* first index of a non-zero digit (Len+1 if none)
RECURSIVE FirstNZ(_, _)
FirstNZ(m, i) == IF i <= Len(m) /\ m[i] = 0 THEN FirstNZ(m, i + 1) ELSE i

Scaled(d, e, E) == d \o Zeros(e - E)      \* int(d) * 10^e expressed in units of 10^E, E <= e

\* the payload pf is the double nearest to the literal (ties to even)
FloatOK(cs, D, pf) ==
  LET L == LitNum(cs, D)
      nz == FirstNZ(L.m, 1)
      mag == (Len(L.m) - nz + 1) + L.e       \* value < 10^mag, value >= 10^(mag-1) unless zero
  IN
  IF pf.neg THEN FALSE
  ELSE IF nz > Len(L.m) THEN pf.fin /\ pf.d = <<>>                        \* literal is zero
  ELSE IF mag > 320 THEN ~pf.fin                                          \* overflows to +inf
  ELSE IF mag < 0 - 340 THEN pf.fin /\ pf.d = <<>>                        \* underflows to zero
  ELSE IF ~pf.fin THEN
       \* +inf is right iff literal >= 2^1024 - 2^970
       LET E == IF L.e < 0 THEN L.e ELSE 0
       IN Cmp(Scaled(L.m, L.e, E), Scaled(InfThresholdD, 0, E)) >= 0
  ELSE
       LET pe == pf.s - Len(pf.d)
           ue == pf.us - Len(pf.ud)
           le == pf.ls - Len(pf.ld)
           E0 == IF L.e < pe THEN L.e ELSE pe
           E1 == IF ~pf.uinf /\ ue < E0 THEN ue ELSE E0
           E  == IF ~pf.lnone /\ le < E1 THEN le ELSE E1
           lit == Scaled(L.m, L.e, E)
           p  == Scaled(pf.d, pe, E)
           l2 == Add(lit, lit)
           lowOK == IF pf.lnone THEN TRUE
                    ELSE LET c == Cmp(Add(Scaled(pf.ld, le, E), p), l2)
                         IN c < 0 \/ (c = 0 /\ pf.even)
           upOK == IF pf.uinf
                     THEN Cmp(lit, Scaled(InfThresholdD, 0, IF E < 0 THEN E ELSE 0)) < 0
                          \/ E > 0   \* (E > 0 cannot happen next to the largest double)
                     ELSE LET c == Cmp(l2, Add(p, Scaled(pf.ud, ue, E)))
                          IN c < 0 \/ (c = 0 /\ pf.even)
       IN lowOK /\ upOK

C08_float_value(r) ==
  {i \in NumIdx(r) : LET t == r.toks[i]  R == RefNum(r.cs, t.c + 1) IN
     /\ ErrsAt(r, t.i) = {} /\ R.errs = {} /\ R.form = "float" /\ t.ty = R.ty
     /\ ~(t.pk = "f" /\ FloatOK(r.cs, R.D, t.pf))}
=============================================================================
