//! lexrun-reg: the native view of the *published* sas-lexer crate (the one the Python binding links):
//! bulk resolved tokens, errors and literal buffer, in the same record layout as lexrun.
use std::io::{BufRead, BufWriter, Write};
use std::panic::{catch_unwind, AssertUnwindSafe};

use sas_lexer::{lex_program, Payload};
use serde_json::{json, Map, Value};

fn char_class(c: char) -> u8 {
    if c == '\u{b}' || c == '\u{c}' {
        1
    } else if c == '\u{ac}' {
        5
    } else if c == '\u{a6}' {
        6
    } else if c == '\u{2218}' {
        7
    } else if c == '\u{feff}' {
        8
    } else if c.is_ascii() {
        0
    } else if c.is_whitespace() {
        1
    } else if unicode_ident::is_xid_start(c) {
        2
    } else if unicode_ident::is_xid_continue(c) {
        3
    } else {
        4
    }
}

fn chars_json(s: &str) -> Value {
    Value::Array(s.chars().map(|c| json!(c.to_string())).collect())
}

fn main() {
    let args: Vec<String> = std::env::args().collect();
    let (mut input, mut output) = (String::new(), String::new());
    let mut it = args.iter().skip(1);
    while let Some(a) = it.next() {
        match a.as_str() {
            "--in" => input = it.next().expect("path").clone(),
            "--out" => output = it.next().expect("path").clone(),
            _ => {}
        }
    }
    std::panic::set_hook(Box::new(|_| {}));
    let f = std::fs::File::open(&input).expect("open input");
    let mut w = BufWriter::new(std::fs::File::create(&output).expect("create output"));
    for line in std::io::BufReader::new(f).lines() {
        let line = line.expect("read");
        if line.trim().is_empty() {
            continue;
        }
        let v: Value = serde_json::from_str(&line).expect("json");
        let src = v.get("src").and_then(Value::as_str).expect("src").to_string();
        let mut out = Map::new();
        out.insert("id".into(), v.get("id").cloned().unwrap_or(Value::Null));
        out.insert("len".into(), json!(src.len()));
        out.insert("nchars".into(), json!(src.chars().count()));
        out.insert("cs".into(), chars_json(&src));
        out.insert("cw".into(), Value::Array(src.chars().map(|c| json!(c.len_utf8())).collect()));
        out.insert("cc".into(), Value::Array(src.chars().map(|c| json!(char_class(c))).collect()));
        let n = src.chars().count();
        let bom = usize::from(src.starts_with('\u{feff}'));
        let (mut cb, mut cl, mut cco) = (Vec::with_capacity(n + 1), Vec::with_capacity(n + 1), Vec::with_capacity(n + 1));
        let (mut b, mut l, mut col) = (0usize, 1usize, if bom == 1 { -1i64 } else { 0 });
        for c in src.chars() {
            cb.push(b);
            cl.push(l);
            cco.push(col);
            b += c.len_utf8();
            if c == '\n' {
                l += 1;
                col = 0;
            } else {
                col += 1;
            }
        }
        cb.push(b);
        cl.push(l);
        cco.push(col);
        out.insert("cb".into(), json!(cb));
        out.insert("cl".into(), json!(cl));
        out.insert("cco".into(), json!(cco));
        out.insert("bom".into(), json!(bom));
        out.insert("budget_exceeded".into(), json!(false));
        out.insert("events".into(), json!([]));
        match catch_unwind(AssertUnwindSafe(|| lex_program(&src))) {
            Err(_) => {
                out.insert("ok".into(), json!(false));
                out.insert("panic".into(), json!("panic in the published crate"));
            }
            Ok(Err(e)) => {
                out.insert("ok".into(), json!(false));
                out.insert("panic".into(), json!(e.to_string()));
            }
            Ok(Ok(res)) => {
                out.insert("ok".into(), json!(true));
                out.insert("panic".into(), json!(""));
                let rtoks: Vec<Value> = res
                    .buffer
                    .into_resolved_token_vec()
                    .iter()
                    .map(|r| {
                        let (pk, pv) = match r.payload {
                            Payload::None => ("n", String::new()),
                            Payload::Integer(i) => ("i", i.to_string()),
                            Payload::Float(f) => ("f", format!("{:016x}", f.to_bits())),
                            Payload::StringLiteral(s, e) => ("s", format!("{s}:{e}")),
                        };
                        json!({"i": r.token_index, "ty": r.token_type.to_string(), "tn": r.token_type as u16,
                               "ch": r.channel.to_string(), "chn": r.channel as u8,
                               "c": r.start, "ec": r.stop, "l": r.line, "col": r.column,
                               "el": r.end_line, "ecol": r.end_column, "pk": pk, "pv": pv})
                    })
                    .collect();
                out.insert("rtoks".into(), Value::Array(rtoks));
                out.insert(
                    "errs".into(),
                    Value::Array(
                        res.errors
                            .iter()
                            .map(|e| {
                                json!({"k": e.error_kind().to_string(), "code": e.error_kind() as u16,
                                       "b": e.at_byte_offset(), "c": e.at_char_offset(), "l": e.on_line(),
                                       "col": e.at_column(),
                                       "lt": e.last_token().map_or(-1i64, |t| i64::from(t.get()))})
                            })
                            .collect(),
                    ),
                );
                let lit = res.buffer.string_literals_buffer();
                out.insert("litlen".into(), json!(lit.len()));
                out.insert("lit".into(), chars_json(lit));
            }
        }
        serde_json::to_writer(&mut w, &Value::Object(out)).unwrap();
        w.write_all(b"\n").unwrap();
    }
    w.flush().unwrap();
}
