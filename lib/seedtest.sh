#!/bin/sh
# usage: seedtest.sh <patch> <check ids...>
# Evaluates the quick checks on a scratch worktree of /repo carrying a seeded change.  /repo itself and
# /verif/evidence are not touched (VERIF_REPO/VERIF_WORK redirect builds, work files and evidence).
patch="$1"; shift
wt=/tmp/verif-seed-wt
wk=/tmp/verif-seed-work
git -C /repo worktree remove --force $wt 2>/dev/null
rm -rf $wt
git -C /repo worktree add -q --detach $wt HEAD || exit 2
git -C $wt apply "$patch" || { echo "patch does not apply"; git -C /repo worktree remove --force $wt; exit 2; }
mkdir -p $wk
for c in "$@"; do
  echo "=== $c on $(basename $(dirname $patch))"
  (cd /verif && VERIF_REPO=$wt VERIF_WORK=$wk ./check $c 2>&1 | grep -E "VIOLATION|KNOWN|TOOL-ERROR|quick:|clause=" | head -12)
done
git -C /repo worktree remove --force $wt
rm -rf $wk/C* $wk/evidence
