----------------------------- MODULE TraceConf -----------------------------
(***************************************************************************)
(* Conformance (implementation -> specification): the events recorded by   *)
(* the hooks, one per main-loop iteration / finalize turn, are replayed    *)
(* against the step function of SasLexer.  After every step the complete   *)
(* configuration (cursor, mode stack, checkpoint, pending stack, nesting,  *)
(* checkpoint operations) and the output delta (tokens from the first      *)
(* changed index, line starts, new errors) must be equal.                  *)
(*                                                                         *)
(* A difference is *drift*: it is reported, the recorded state is adopted  *)
(* and the rest of the trace is still checked.  Drift is never a verdict   *)
(* on a property (DESIGN.md section 6).                                    *)
(***************************************************************************)
EXTENDS SasLexer

TokCoreM(t) == <<t.ty, t.ch, t.c, t.l + 1, t.pk, t.ps, t.pe>>
ErrCoreM(e) == <<e.k, e.c, e.lt>>

\* the fields in which the model state S1 (reached from S by one step) differs from event e
StepDiffs(S, S1, e) ==
  LET fc == e.fc
      nt == Len(S1.toks)
  IN
  (IF S1.pos = e.ca THEN {} ELSE {"cursor"}) \cup
  (IF S1.modes = e.cfg.modes THEN {} ELSE {"modes"}) \cup
  (IF S1.ck.set = e.cfg.ck.set /\ (S1.ck.set => (S1.ck.pos = e.cfg.ck.c /\ S1.ck.ml = e.cfg.ck.ml
                                                  /\ S1.ck.nt = e.cfg.ck.nt /\ S1.ck.nl = e.cfg.ck.nl
                                                  /\ S1.ck.ns = e.cfg.ck.ns))
     THEN {} ELSE {"checkpoint"}) \cup
  (IF S1.pend = e.cfg.pend THEN {} ELSE {"pending"}) \cup
  (IF S1.nest = e.cfg.nest THEN {} ELSE {"nesting"}) \cup
  (IF S1.ops = e.ops THEN {} ELSE {"ckpt-ops"}) \cup
  (IF /\ nt = fc + Len(e.tt)
      /\ fc <= Len(S.toks)
      /\ SubSeq(S1.toks, 1, fc) = SubSeq(S.toks, 1, fc)
      /\ \A j \in 1..Len(e.tt) : TokCoreM(S1.toks[fc + j]) = <<e.tt[j].ty, e.tt[j].ch, e.tt[j].c, e.tt[j].l, e.tt[j].pk, e.tt[j].ps, e.tt[j].pe>>
     THEN {} ELSE {"tokens"}) \cup
  \* integer payloads (resolve depth of MacroVarResolve, value of an error-free integer literal) where the model has them
  (IF nt = fc + Len(e.tt) => \A j \in 1..Len(e.tt) : S1.toks[fc + j].pi \in {<<>>, e.tt[j].pi}
     THEN {} ELSE {"integer-payload"}) \cup
  (IF Len(S1.lines) = e.la /\ (e.la >= 1 => S1.lines[e.la] = (IF e.lt = <<>> THEN S1.lines[e.la] ELSE e.lt[Len(e.lt)][2]))
     THEN {} ELSE {"lines"}) \cup
  (IF /\ Len(S1.errs) = e.eb + Len(e.ne)
      /\ \A j \in 1..Len(e.ne) : ErrCoreM(S1.errs[e.eb + j]) = <<e.ne[j].k, e.ne[j].c, e.ne[j].lt>>
     THEN {} ELSE {"errors"}) \cup
  (IF S1.nlit = e.nl THEN {} ELSE {"literal-buffer"}) \cup
  (IF (S1.fault = "") THEN {} ELSE {"model-fault:" \o S1.fault})

\* the recorded state after event e, grafted onto the model state before it
Adopt(S, e) ==
  LET k == e.cfg.ck
      lkeep == IF e.lb < e.la THEN e.lb ELSE e.la
  IN [S EXCEPT
        !.pos = e.ca, !.ts = e.ca, !.tl = e.la - 1, !.modes = e.cfg.modes,
        !.ck = [set |-> k.set, pos |-> k.c, ts |-> k.c, tl |-> k.nl - 1, ml |-> k.ml, nt |-> k.nt, nl |-> k.nl, ns |-> k.ns],
        !.nlit = e.nl,
        !.pend = e.cfg.pend, !.nest = e.cfg.nest, !.ops = e.ops, !.fault = "",
        !.toks = SubSeq(S.toks, 1, IF e.fc < Len(S.toks) THEN e.fc ELSE Len(S.toks))
                 \o [j \in 1..Len(e.tt) |-> [ty |-> e.tt[j].ty, ch |-> e.tt[j].ch, c |-> e.tt[j].c, l |-> e.tt[j].l - 1,
                                              pk |-> e.tt[j].pk, ps |-> e.tt[j].ps, pe |-> e.tt[j].pe, pi |-> e.tt[j].pi]],
        !.lines = SubSeq(S.lines, 1, IF lkeep < Len(S.lines) THEN lkeep ELSE Len(S.lines))
                  \o [j \in 1..Len(e.lt) |-> e.lt[j][2]],
        !.errs = S.errs \o [j \in 1..Len(e.ne) |-> [k |-> e.ne[j].k, c |-> e.ne[j].c, lt |-> e.ne[j].lt]]]

ModelStep(S, T, e) ==
  CASE e.ph = "L" -> Step(S, T)
    [] e.ph = "F" -> FinalizeStep(S, T)
    [] OTHER -> EofStep(S)

\* byte offsets: the model works in character positions; every recorded byte offset (cursor, tokens,
\* line starts, errors) must be the byte offset of the corresponding character position
ByteDiffs(r, e) ==
  LET BO(c) == IF c >= 0 /\ c <= Len(r.cs) THEN r.cb[c + 1] ELSE 0 - 1 IN
  (IF e.ba = BO(e.ca) THEN {} ELSE {"cursor-bytes"}) \cup
  (IF \A j \in 1..Len(e.tt) : e.tt[j].b = BO(e.tt[j].c) THEN {} ELSE {"token-bytes"}) \cup
  (IF \A j \in 1..Len(e.lt) : e.lt[j][1] = BO(e.lt[j][2]) THEN {} ELSE {"line-bytes"}) \cup
  (IF \A j \in 1..Len(e.ne) : e.ne[j].b = BO(e.ne[j].c) THEN {} ELSE {"error-bytes"}) \cup
  (IF e.cfg.ck.set => e.cfg.ck.b = BO(e.cfg.ck.c) THEN {} ELSE {"checkpoint-bytes"})

RECURSIVE ConfLoop(_, _, _, _, _)
ConfLoop(r, T, S, i, acc) ==
  IF i > Len(r.events) THEN acc
  ELSE LET e == r.events[i]
           \* finalize pops the mode before the hook records it: the recorded stack lacks it
           S1 == ModelStep(S, T, e)
           d == StepDiffs(S, S1, e) \cup ByteDiffs(r, e)
       IN IF d = {} THEN ConfLoop(r, T, S1, i + 1, acc)
          ELSE ConfLoop(r, T, Adopt(S, e), i + 1, acc \cup {<<i, e.ph, e.mb.k, f>> : f \in d})

CONF_drift(r) ==
  IF ~r.ok \/ r.events = <<>> THEN {}
  ELSE ConfLoop(r, [cs |-> r.cs, cc |-> r.cc, cw |-> r.cw], InitState(r.bom), 1, {})

\* ---- the model's own result on the text of a record (no events needed) ----------------------
\* Used to evaluate property clauses on the *model* (design level) for inputs generated elsewhere
\* (Gen derivations, exhaustive open-code families) and to compare final results without events.
RECURSIVE RunToEof(_, _, _)
RunToEof(S, T, fuel) ==
  IF fuel = 0 THEN Fault(S, "OutOfFuel")
  ELSE IF Eof(T, S.pos) THEN S ELSE RunToEof(Step(S, T), T, fuel - 1)
LastTy(S) == IF S.toks = <<>> THEN "None" ELSE S.toks[Len(S.toks)].ty
ModelRec(r) ==
  LET T == [cs |-> r.cs, cc |-> r.cc, cw |-> r.cw]
      fuel == 4 * Len(r.cs) + 64
      E == RunToEof(InitState(r.bom), T, fuel)
      F == RunLex(E, T, fuel)
      n == Len(F.toks)
      endc(i) == IF i < n THEN F.toks[i+1].c ELSE F.toks[i].c
      tk(i) == [i |-> i - 1, ty |-> F.toks[i].ty, ch |-> F.toks[i].ch,
                c |-> F.toks[i].c, ec |-> endc(i), l |-> F.toks[i].l + 1, b |-> r.cb[F.toks[i].c + 1], eb |-> r.cb[endc(i) + 1],
                pk |-> F.toks[i].pk, ps |-> F.toks[i].ps, pe |-> F.toks[i].pe, pi |-> F.toks[i].pi,
                pis |-> IF F.toks[i].ty = "MacroVarResolve" /\ F.toks[i].pi # <<>>
                          THEN ToString(IF Len(F.toks[i].pi) = 2 THEN 10 * F.toks[i].pi[1] + F.toks[i].pi[2] ELSE F.toks[i].pi[1])
                          ELSE ""]
  IN [ok |-> F.fault = "", budget_exceeded |-> FALSE, panic |-> "", mfault |-> F.fault, events |-> <<>>,
      toks |-> [i \in 1..n |-> tk(i)], ntoks |-> n,
      errs |-> [i \in 1..Len(F.errs) |-> [k |-> F.errs[i].k, c |-> F.errs[i].c, b |-> r.cb[F.errs[i].c + 1], lt |-> F.errs[i].lt]],
      at_eof |-> [modes |-> E.modes, ck |-> [set |-> E.ck.set], nest |-> E.nest, pend |-> E.pend, lt |-> LastTy(E)],
      litlen |-> F.nlit] @@ r      \* everything else (text, position tables, generator expectations) as recorded
\* final results of model and implementation agree (tokens: type, channel, start, payload kind and range; errors: kind, position)
M_same_toks(r) ==
  LET m == ModelRec(r) IN
  IF Len(m.toks) # Len(r.toks) THEN {0 - 1}
  ELSE {i \in 1..Len(r.toks) :
          \/ m.toks[i].ty # r.toks[i].ty \/ m.toks[i].ch # r.toks[i].ch \/ m.toks[i].c # r.toks[i].c \/ m.toks[i].l # r.toks[i].l
          \/ m.toks[i].pk # r.toks[i].pk
          \/ (r.toks[i].pk = "s" /\ (m.toks[i].ps # r.toks[i].ps \/ m.toks[i].pe # r.toks[i].pe))
          \/ (r.toks[i].pk = "i" /\ m.toks[i].pi # <<>> /\ m.toks[i].pi # r.toks[i].pi)}
M_same_errs(r) ==
  LET m == ModelRec(r) IN
  IF Len(m.errs) # Len(r.errs) THEN {0 - 1}
  ELSE {i \in 1..Len(r.errs) : m.errs[i].k # r.errs[i].k \/ m.errs[i].c # r.errs[i].c \/ m.errs[i].lt # r.errs[i].lt}
M_fault(r) == LET m == ModelRec(r) IN IF m.mfault = "" THEN {} ELSE {m.mfault}
=============================================================================
