----------------------------- MODULE MC_SepPair -----------------------------
(***************************************************************************)
(* C18 at the design level: the operational model with the macro_sep       *)
(* feature and without it, run in lockstep on the same lazily chosen text. *)
(* The feature never influences the configuration; after erasing the       *)
(* MacroSep tokens the outputs are identical; every MacroSep stands        *)
(* directly before a macro statement keyword or label and never directly   *)
(* after a semicolon, a label, %then or %else.                             *)
(* (Same lazy-input scheme and bounds as MC_SasLexer; S is the build with  *)
(* the feature, S0 the build without.)                                     *)
(***************************************************************************)
EXTENDS MC_SasLexer

VARIABLE S0
pvars == <<T, fends, nfr, eof, S, phase, S0>>

PInit == Init /\ S0 = InitStateF(0, FALSE)

PExtend == Extend /\ UNCHANGED S0
PLexStep ==
  /\ LexStep
  /\ S0' = [Pending(S0, T, eof) EXCEPT !.la = 0]
PStartFinalize == StartFinalize /\ UNCHANGED S0
PFinStep ==
  /\ FinStep
  /\ S0' = IF S0.modes # <<>> THEN FinalizeStep(S0, T) ELSE EofStep(S0)
PNext == PExtend \/ PLexStep \/ PStartFinalize \/ PFinStep
PSpec == PInit /\ [][PNext]_pvars

\* the view of MC_SasLexer plus what distinguishes the second build
PView == <<View, S0.modes, S0.pend, S0.nest, S0.ck.set, LookBehind(S0.toks)>>

EraseSep(toks) == SelectSeq(toks, LAMBDA t : t.ty # "MacroSep")
SameConfiguration ==
  /\ S.pos = S0.pos /\ S.modes = S0.modes /\ S.pend = S0.pend /\ S.nest = S0.nest
  /\ S.ck.set = S0.ck.set /\ (S.ck.set => (S.ck.pos = S0.ck.pos /\ S.ck.ml = S0.ck.ml))
  /\ S.fault = S0.fault
SepErase ==
  /\ EraseSep(S.toks) = S0.toks
  /\ Len(S.errs) = Len(S0.errs)
  /\ \A i \in 1..Len(S.errs) :
        LET x == S.errs[i]  y == S0.errs[i] IN
        /\ x.k = y.k /\ x.c = y.c
        \* the last-token index of an error maps through the erasure and never designates a separator
        /\ IF x.lt < 0 THEN y.lt = x.lt
           ELSE /\ x.lt < Len(S.toks) /\ S.toks[x.lt + 1].ty # "MacroSep"
                /\ y.lt = x.lt - Cardinality({j \in 1..x.lt + 1 : S.toks[j].ty = "MacroSep"})
  /\ S.lines = S0.lines /\ S.nlit = S0.nlit
  /\ \A i \in 1..Len(S0.toks) : S0.toks[i].ty # "MacroSep"
SepPlacement ==
  \A i \in 1..Len(S.toks) :
     S.toks[i].ty = "MacroSep" =>
        LET pd == LastDefIdx(S.toks, i - 1) IN
        /\ S.toks[i].ch = "DEFAULT"
        /\ i < Len(S.toks) /\ S.toks[i+1].c = S.toks[i].c
        /\ S.toks[i+1].ty \in KwmStatTypes \cup {"MacroLabel", "MacroIdentifier"}
        /\ pd >= 1 /\ S.toks[pd].ty \notin {"SEMI", "MacroLabel", "KwmThen", "KwmElse", "MacroSep"}
\* (a MacroSep inserted before a label precedes the token while it is still a MacroIdentifier only
\* within the step that retags it; at step boundaries it is a MacroLabel)
SepPlacementStrict ==
  \A i \in 1..Len(S.toks) :
     (S.toks[i].ty = "MacroSep" /\ i < Len(S.toks)) => S.toks[i+1].ty \in KwmStatTypes \cup {"MacroLabel"}
=============================================================================
