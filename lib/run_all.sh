#!/bin/sh
# usage: run_all.sh <tier> [ids...] : runs the checks one after the other and prints one summary line each
tier="$1"; shift
ids="${*:-C01 C02 C03 C04 C05 C06 C07 C08 C09 C10 C11 C12 C13 C14 C15 C16 C17 C18 C19 C20}"
cd "$(dirname "$0")/.."
[ -d work/cover ] || ./setup.sh > work-setup.log 2>&1
for id in $ids; do
  s=$(date +%s)
  mkdir -p work/logs; ./check $id --tier $tier > work/logs/$tier-$id.log 2>&1; rc=$?
  e=$(date +%s)
  echo "$id rc=$rc $((e-s))s $(grep -E 'VIOLATION|TOOL-ERROR' work/logs/$tier-$id.log | head -2 | tr '\n' ' ')"
done
