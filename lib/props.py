"""Per-property check procedures (DESIGN.md section 8)."""
import json
import os
import random
import shutil
import time

import common
import gen
from common import ToolError, log

CHUNK = 1500  # cases per trace file / TLC process
CHUNK_BYTES = 60 * 1000 * 1000   # and at most this many bytes


class Ctx:
    def __init__(self, prop, tier, seed, keep=False):
        self.prop, self.tier, self.seed, self.keep = prop, tier, seed, keep
        self.rng = random.Random("%s/%s" % (prop, seed))
        self.dir = os.path.join(common.WORK, prop)
        shutil.rmtree(self.dir, ignore_errors=True)
        os.makedirs(self.dir, exist_ok=True)
        self.t0 = time.time()
        self.cases = {}          # id -> case dict
        self.violations = []     # (clause, case id, detail, variant)
        self.known_hits = []
        self.states = 0
        self.transitions = 0
        self.traces = 0
        self.evals = 0
        self.families = {}
        self.samples = []
        self.extra = {}
        self.nontrivial = set()
        self.replay_case = None  # --replay: the property's own procedure is run on this single case

    def quick(self):
        return self.tier == "quick"

    def add_cases(self, fam, srcs):
        if self.replay_case is not None:
            return []
        out = []
        n0 = len(self.cases)
        seen = self.extra.setdefault("_seen", set())
        for s in srcs:
            if not gen.valid_utf8(s) or s in seen:
                continue
            seen.add(s)
            cid = "%s-%d" % (fam, len(self.cases))
            c = {"id": cid, "src": s, "fam": fam}
            self.cases[cid] = c
            out.append(c)
        self.families[fam] = self.families.get(fam, 0) + len(self.cases) - n0
        return out


def base_inputs(ctx, soup_n, trunc_n=0, lf_n=0, mb_n=0, case_n=0, corpus_trunc=0, gen_n=0, cover_n=0):
    """The shared input sources of DESIGN.md section 5 (4: corpus, 5: random driver, 3: derived)."""
    rng = ctx.rng
    if ctx.replay_case is not None:
        ctx.cases[ctx.replay_case["id"]] = ctx.replay_case
        ctx.families["replay"] = 1
        return
    corp = [s for _, s in gen.corpus()]
    ctx.add_cases("corpus", corp)
    ctx.add_cases("regress", regression_inputs())
    sp = gen.soup(rng, soup_n)
    ctx.add_cases("soup", sp)
    pool = corp + sp
    if cover_n:
        cv = cover_inputs(ctx, None if cover_n < 0 else cover_n)
        ctx.add_cases("cover", cv)
    if gen_n:
        # programs of the construct grammar, half of them with one deleted delimiter (errors in every nesting context)
        gp = []
        for flt in (False, True):
            progs, stats = gen_programs(ctx, flt, sim_n=gen_n // 2, fuel_sim=[8, 14])
            gp.extend("".join(j["src"]) for j in progs)
        ctx.add_cases("gen", gp)
        pool = pool + gen.dedup(gp)
    if trunc_n:
        tr = []
        for s in rng.sample(pool, min(len(pool), trunc_n)):
            if s:
                tr.extend(gen.truncations(s, rng, limit=6))
        ctx.add_cases("trunc", tr)
    if corpus_trunc:
        tr = []
        for s in corp:
            if len(s) <= corpus_trunc:
                tr.extend(gen.truncations(s))
        ctx.add_cases("ctrunc", tr)
    if lf_n:
        lf = []
        for s in rng.sample(pool, min(len(pool), lf_n)):
            lf.extend(gen.lf_injections(s, rng, limit=4))
        ctx.add_cases("lf", lf)
    if mb_n:
        ctx.add_cases("mb", [gen.multibyte_inject(s, rng) for s in rng.sample(pool, min(len(pool), mb_n))])
    if case_n:
        ctx.add_cases("case", [gen.case_mangle(s, rng) for s in rng.sample(pool, min(len(pool), case_n))])
    # a sample of every special family goes to every check: a change is often visible to a property whose own
    # families do not contain the construct (DESIGN.md section 12, corrections 18, 22)
    cn = COMMON_N[ctx.tier]
    ctx.add_cases("common:deep_family", gen.deep_family(rng, cn // 10))
    for fam in ("string_family", "num_family", "sep_family", "multiline_family", "err_family", "dl_family"):
        if fam == "num_family":
            ctx.add_cases("common:" + fam, gen.num_family(rng, cn, exhaustive_len=1))
        else:
            ctx.add_cases("common:" + fam, getattr(gen, fam)(rng, cn)[-cn:] if fam == "err_family" else getattr(gen, fam)(rng, cn // 2 if fam == "dl_family" else cn))
    ctx.add_cases("common:oc_family", rng.sample(gen.oc_family(rng, 2 * cn, exh_small=2), cn))
    # white space other than blank/tab/LF where the input has blanks (ASCII fast paths, is_ascii_whitespace)
    uw = []
    for s_ in rng.sample(pool, min(len(pool), cn)):
        if " " in s_:
            uw.append("".join(rng.choice(UNI_WS) if ch == " " and rng.random() < 0.5 else ch for ch in s_))
    ctx.add_cases("common:unicode_ws", uw)
    # byte-order marks beyond the single leading one: a second leading BOM and BOMs inside the text are ordinary characters
    bm = ["\ufeff\ufeff", "\ufeff\ufeff\ufeff", "\ufeff", "\ufeff\n\ufeff", "a\ufeff", "\ufeff \ufeff;"]
    for s_ in rng.sample(pool, min(len(pool), cn // 4)):
        k_ = rng.randint(0, len(s_))
        bm.append("\ufeff\ufeff" + s_)
        bm.append("\ufeff" + s_[:k_] + "\ufeff" + s_[k_:])
    ctx.add_cases("common:bom", bm)
    if not mb_n:
        ctx.add_cases("common:mb", [gen.multibyte_inject(s, rng) for s in rng.sample(pool, min(len(pool), cn))])
    if not lf_n:
        lf = []
        for s in rng.sample(pool, min(len(pool), cn // 2)):
            lf.extend(gen.lf_injections(s, rng, limit=2))
        ctx.add_cases("common:lf", lf)


COMMON_N = {"quick": 500, "thorough": 5000}


def regression_inputs():
    """Minimal inputs of every finding ever made (fixed or known) stay in the corpus."""
    k = common.load_known()
    out = []
    for f in k.get("findings", []) + k.get("fixed", []):
        for key in ("source", "regression_source"):
            if key in f:
                out.append(f[key])
        out.extend(f.get("regression_sources", []))
    return out


def run_variant(ctx, variant, cases, events, tag=None):
    """Builds the variant, runs the cases, returns the list of trace chunk paths."""
    binp = common.build(variant)
    tag = tag or variant
    paths = []
    cases = list(cases)
    for ci in range(0, len(cases), CHUNK):
        chunk = cases[ci:ci + CHUNK]
        cin = os.path.join(ctx.dir, "cases-%s-%d.ndjson" % (tag, ci // CHUNK))
        cout = os.path.join(ctx.dir, "trace-%s-%d.ndjson" % (tag, ci // CHUNK))
        common.write_cases(cin, chunk)
        r = common.lexrun(binp, cin, cout, events=events, chars=True, timeout=600)
        if r["timeout"] or r["rc"] != 0:
            # the process died or hung: find the culprit case by bisection-free rerun one by one
            bad = isolate_crash(ctx, binp, chunk, events)
            if bad is None:
                raise ToolError("lexrun failed without a reproducible culprit: %s" % r["out"][-500:])
            ctx.violations.append(("C01_process", bad["id"], "lexrun %s" % ("hung" if r["timeout"] else "died"), variant))
            rest = [c for c in chunk if c["id"] != bad["id"]]
            common.write_cases(cin, rest)
            r = common.lexrun(binp, cin, cout, events=events, chars=True, timeout=600)
            if r["timeout"] or r["rc"] != 0:
                raise ToolError("lexrun failed twice on chunk %s" % cin)
        paths.append(cout)
        ctx.evals += len(chunk)
    return paths


def isolate_crash(ctx, binp, chunk, events):
    one_in = os.path.join(ctx.dir, "one.ndjson")
    one_out = os.path.join(ctx.dir, "one.out.ndjson")
    for c in chunk:
        common.write_cases(one_in, [c])
        r = common.lexrun(binp, one_in, one_out, events=events, chars=True, timeout=20)
        if r["timeout"] or r["rc"] != 0:
            return c
    return None


def judge(ctx, variant, mon, witness_text=None):
    """Turns monitor verdicts into violations / known findings.  witness_text(cid, clause, witness) may
    supply the text of the violating token, by which a known finding can be identified."""
    ctx.states += mon["states"]
    ctx.transitions += mon["transitions"]
    ctx.traces += mon["records"]
    known = common.load_known()
    for cid, clause, count, witness in mon["verdicts"]:
        case = dict(ctx.cases.get(cid, {"id": cid, "src": ""}))
        if witness_text is not None:
            case["witness_text"] = witness_text(cid, clause, witness)
        hit = None
        for f in known.get("findings", []):
            if common.finding_matches(f, ctx.prop, clause, case):
                hit = f
                break
        if hit is not None:
            ctx.known_hits.append((hit, clause, cid))
        else:
            ctx.violations.append((clause, cid, "count=%s witness=%s" % (count, witness), variant))


def finish(ctx, level, rule, assumptions, explanation=None):
    """Prints verdict lines, writes evidence, returns the exit code."""
    printed = set()
    for f, clause, cid in ctx.known_hits:
        key = f.get("id", f.get("what"))
        if key in printed:
            continue
        printed.add(key)
        print("KNOWN-FINDING: property=%s %s" % (ctx.prop, f["what"]), flush=True)
    # group violations by clause, print the shortest source per clause first
    rc = 0
    byclause = {}
    for clause, cid, detail, variant in ctx.violations:
        byclause.setdefault(clause, []).append((cid, detail, variant))
    for clause, lst in sorted(byclause.items()):
        lst.sort(key=lambda x: len(ctx.cases.get(x[0], {}).get("src", "")))
        for cid, detail, variant in lst[:3]:
            case = ctx.cases.get(cid, {"id": cid, "src": ""})
            path = common.write_replay(ctx.prop, clause, case, detail, variant)
            print("VIOLATION property=%s replay=%s" % (ctx.prop, path), flush=True)
            print("  clause=%s variant=%s %s source=%r" % (clause, variant, detail, case.get("src", "")[:200]),
                  flush=True)
            rc = 1
        if len(lst) > 3:
            print("  (%d more cases violate %s)" % (len(lst) - 3, clause), flush=True)
    with open(os.path.join(ctx.dir, "violations.json"), "w", encoding="utf-8") as f:
        json.dump([{"clause": cl, "id": cid, "detail": d, "variant": v, "src": ctx.cases.get(cid, {}).get("src", ""),
                    "A": ctx.cases.get(cid, {}).get("A"), "B": ctx.cases.get(cid, {}).get("B")}
                   for cl, cid, d, v in ctx.violations], f, ensure_ascii=False, indent=0)
    cov = {
        "states": max(ctx.states, 0),
        "transitions": max(ctx.transitions, 0),
        "traces_validated_against_impl": ctx.traces,
        "evaluations": ctx.evals,
        "distinct_nontrivial": len([c for c in ctx.cases.values() if nontrivial(c["src"])]),
        "rule": rule,
        "samples": ctx.samples[:8] or [c["src"] for c in list(ctx.cases.values())[:5]],
        "families": ctx.families,
        "known_findings_hit": sorted({f.get("id", f.get("what")) for f, _, _ in ctx.known_hits}),
        "exhaustive": False,
    }
    for k, v in ctx.extra.items():
        if not k.startswith("_"):
            cov[k] = v
    if explanation:
        cov["explanation"] = explanation
    common.write_evidence(ctx.prop, ctx.tier, ctx.seed, level, cov, time.time() - ctx.t0,
                          len(ctx.violations), assumptions)
    if not ctx.keep:
        for fn in os.listdir(ctx.dir):
            if fn.endswith(".ndjson"):
                os.remove(os.path.join(ctx.dir, fn))
    log("[%s] %s: %d cases, %d traces judged, %d violations, %d known-finding hits, %.1fs" % (
        ctx.prop, ctx.tier, len(ctx.cases), ctx.traces, len(ctx.violations), len(ctx.known_hits),
        time.time() - ctx.t0))
    return rc


def nontrivial(src):
    """A case is non-trivial if it has at least two characters that are not white space."""
    return len([c for c in src if not c.isspace()]) >= 2


def pick_samples(ctx, n=6):
    ids = list(ctx.cases)
    ctx.rng.shuffle(ids)
    ctx.samples = [{"id": i, "src": ctx.cases[i]["src"][:160]} for i in ids[:n]]


# ----------------------------------------------------------------------------- binding self-test

def _first(recs, pred):
    for r in recs:
        if r.get("ok") and not r.get("budget_exceeded") and pred(r):
            return r
    return None


def _corrupt(prop, recs):
    """Returns (record, expected clause prefix) with one field of one record falsified, or None."""
    import copy
    def tok(r, pred=lambda t: True):
        for i, t in enumerate(r["toks"][:-1]):
            if pred(t):
                return i
        return None
    if prop == "C01":
        r = _first(recs, lambda r: True)
        if r:
            r = copy.deepcopy(r); r["errs"].append({"k": "InternalErrorOutOfBounds", "code": 9003, "b": 0, "c": 0, "l": 1, "col": 0, "lt": -1})
        return r
    if prop in ("C02", "C03"):
        r = _first(recs, lambda r: len(r["toks"]) >= 3 and r["toks"][1]["b"] > 0)
        if r:
            r = copy.deepcopy(r)
            if prop == "C02":
                r["toks"][0]["eb"] += 1      # a gap between the first two tokens
            else:
                r["toks"][1]["c"] += 1       # char offset no longer the code-point index of the byte offset
        return r
    if prop == "C04":
        r = _first(recs, lambda r: len(r["toks"]) >= 2)
        if r:
            r = copy.deepcopy(r); r["toks"][0]["ecol"] += 1
        return r
    if prop == "C05":
        r = _first(recs, lambda r: len(r["toks"]) >= 2)
        if r:
            r = copy.deepcopy(r); r["rtoks"][0]["el"] += 1
        return r
    if prop == "C06":
        r = _first(recs, lambda r: any(t["ty"] == "WS" for t in r["toks"]))
        if r:
            r = copy.deepcopy(r); next(t for t in r["toks"] if t["ty"] == "WS")["ty"] = "SEMI"
        return r
    if prop == "C07":
        r = _first(recs, lambda r: any(t["pk"] == "s" and t["pt"] for t in r["toks"]))
        if r:
            r = copy.deepcopy(r); t = next(t for t in r["toks"] if t["pk"] == "s" and t["pt"]); t["pt"] = t["pt"][:-1]; t["ptc"] = t["ptc"][:-1]
        return r
    if prop == "C08":
        r = _first(recs, lambda r: any(t["ty"] == "IntegerLiteral" and t["pk"] == "i" for t in r["toks"]) and not r["errs"])
        if r:
            r = copy.deepcopy(r); t = next(t for t in r["toks"] if t["ty"] == "IntegerLiteral"); t["pi"] = t["pi"] + [7]
        return r
    if prop == "C09":
        r = _first(recs, lambda r: len(r["errs"]) >= 1)
        if r:
            r = copy.deepcopy(r); r["errs"][0]["lt"] = len(r["toks"]) + 5
        return r
    if prop == "C10":
        r = _first(recs, lambda r: any(t["ty"] == "StringExprEnd" for t in r["toks"]))
        if r:
            r = copy.deepcopy(r); next(t for t in r["toks"] if t["ty"] == "StringExprEnd")["ty"] = "StringExprText"
        return r
    if prop == "C11":
        r = _first(recs, lambda r: any(t["ty"] == "Identifier" for t in r["toks"]) and "%" not in r["cs"] and "&" not in r["cs"])
        if r:
            r = copy.deepcopy(r); next(t for t in r["toks"] if t["ty"] == "Identifier")["ty"] = "KwData"
        return r
    if prop == "C12":
        r = _first(recs, lambda r: True)
        if r:
            r = copy.deepcopy(r); r["at_eof"]["nest"] = 1
        return r
    if prop == "C13":
        r = _first(recs, lambda r: any(e["k"] == "tok" for e in r.get("exps", [])))
        if r:
            r = copy.deepcopy(r); next(e for e in r["exps"] if e["k"] == "tok")["ty"] = "CatchAll"
        return r
    if prop == "C14":
        r = _first(recs, lambda r: len(r["errs"]) >= 1 and r.get("fault", {}).get("kind") in ("assign", "lparen", "semi", "fslash", "rparen", "comma"))
        if r:
            r = copy.deepcopy(r); r["errs"] = []
        return r
    return None


def self_test(ctx, variant, paths, macro_sep=True):
    """Binding self-test (DESIGN.md 4.3): one recorded field is falsified; the monitor must notice."""
    if ctx.replay_case is not None:
        return
    recs = list(common.read_ndjson(paths[0]))
    bad = _corrupt(ctx.prop, recs)
    if bad is None:
        ctx.extra["self_test"] = "not applicable to the records of this run"
        return
    bad["id"] = "__selftest__"
    pth = os.path.join(ctx.dir, "selftest.ndjson")
    common.write_cases(pth, [bad])
    mon = common.monitor(ctx.prop, [pth], ctx.dir, workers_each=1, parallel=1, macro_sep=macro_sep)
    os.remove(pth)
    hit = [v for v in mon["verdicts"] if v[0] == "__selftest__"]
    if not hit:
        raise ToolError("binding self-test: a falsified record was not noticed by the %s monitor" % ctx.prop)
    ctx.extra["self_test"] = "falsified record rejected by clause %s" % hit[0][1]


# ----------------------------------------------------------------------------- generic

GENERIC = {
    # prop: (quick sizes, thorough sizes, events)
    "C01": dict(q=dict(cover_n=1200, soup_n=5000, trunc_n=800, mb_n=300, gen_n=4000), t=dict(cover_n=-1, soup_n=60000, trunc_n=6000, mb_n=3000, corpus_trunc=400), events=True),
    "C02": dict(q=dict(cover_n=1200, soup_n=4000, trunc_n=300, mb_n=800, extra=dict(sep_family=1500, multiline_family=2500, err_family=800)), t=dict(cover_n=40000, soup_n=50000, trunc_n=4000, mb_n=8000, extra=dict(sep_family=20000, multiline_family=30000, err_family=10000)), events=True),
    "C03": dict(q=dict(cover_n=1200, soup_n=3000, mb_n=2500, trunc_n=200, extra=dict(sep_family=1500, multiline_family=2500, err_family=800)), t=dict(cover_n=40000, soup_n=40000, mb_n=30000, trunc_n=2000, extra=dict(sep_family=20000, multiline_family=30000, err_family=10000)), events=True),
    "C04": dict(q=dict(cover_n=1200, soup_n=3000, lf_n=1200, mb_n=300, extra=dict(sep_family=1500, multiline_family=2500, err_family=800)), t=dict(cover_n=40000, soup_n=40000, lf_n=15000, mb_n=3000, extra=dict(sep_family=20000, multiline_family=30000, err_family=10000)), events=True),
    "C05": dict(q=dict(cover_n=1200, soup_n=3000, lf_n=1200, mb_n=300, extra=dict(sep_family=1500, multiline_family=2500, err_family=800)), t=dict(cover_n=40000, soup_n=40000, lf_n=15000, mb_n=3000, extra=dict(sep_family=20000, multiline_family=30000, err_family=10000)), events=False),
    "C06": dict(q=dict(cover_n=1200, soup_n=5000, trunc_n=400, mb_n=500, case_n=300, extra=dict(kw_near_family=5000)), t=dict(cover_n=40000, soup_n=60000, trunc_n=5000, mb_n=5000, case_n=3000, extra=dict(kw_near_family=10000)), events=False),
    "C07": dict(q=dict(cover_n=1200, soup_n=3000, trunc_n=300, mb_n=300, extra=dict(string_family=5000)), t=dict(cover_n=40000, soup_n=30000, trunc_n=3000, mb_n=3000, extra=dict(string_family=80000)), events="all"),
    "C08": dict(q=dict(soup_n=2000, extra=dict(num_family=6000)), t=dict(soup_n=20000, extra=dict(num_family=150000)), events=False),
    "C11": dict(q=dict(soup_n=2000, extra=dict(oc_family=12000)), t=dict(soup_n=20000, extra=dict(oc_family=150000)), events=False),
    "C09": dict(q=dict(cover_n=1200, soup_n=4000, trunc_n=800, gen_n=6000, mb_n=1000, extra=dict(err_family=1500)), t=dict(cover_n=40000, soup_n=60000, trunc_n=8000, corpus_trunc=400, gen_n=80000, mb_n=15000, extra=dict(string_family=30000, err_family=20000)), events=True),
    "C10": dict(q=dict(cover_n=1200, soup_n=4000, trunc_n=1000, gen_n=4000), t=dict(cover_n=40000, soup_n=60000, trunc_n=8000, corpus_trunc=400), events=False),
}

RULES = {
    "generic": "inputs: repository inline test strings and sample programs, regression inputs of all "
               "findings, seeded fragment soup (5 profiles), and derived families (truncations, LF "
               "injection, multi-byte injection); each is lexed by the real code (debug-assertion and "
               "optimized builds) and every clause of the property is evaluated by TLC (TraceMon) on "
               "the recorded result and per-iteration events; distinct = distinct source strings, "
               "non-trivial = at least two non-blank characters",
}


def run_generic(ctx):
    cfg = GENERIC[ctx.prop]
    sizes = dict(cfg["q"] if ctx.quick() else cfg["t"])
    extra = sizes.pop("extra", None)
    base_inputs(ctx, **sizes)
    if extra:
        for fam, n in extra.items():
            if fam == "oc_family" and not ctx.quick():
                ctx.add_cases(fam, gen.oc_family(ctx.rng, n, exh_small=4))
            else:
                ctx.add_cases(fam, getattr(gen, fam)(ctx.rng, n))
    pick_samples(ctx)
    if ctx.prop in ("C01", "C02", "C04", "C07", "C09", "C10"):
        design_mc(ctx)
    if ctx.prop == "C05":
        views_mc(ctx)
        views_proof(ctx)
        buffer_mc(ctx)
    if ctx.prop == "C11":
        opencode_mc(ctx)
    cases = list(ctx.cases.values())
    for variant in ("dbg", "rel"):
        ev = cfg["events"] == "all" or (cfg["events"] and (variant == "dbg" or not ctx.quick()))
        paths = run_variant(ctx, variant, cases, events=ev)
        mon = common.monitor(ctx.prop, paths, ctx.dir, workers_each=2, parallel=8)
        judge(ctx, variant, mon)
        log("[%s] %s: %d records monitored in %.1fs, %d verdict lines" % (
            ctx.prop, variant, mon["records"], mon["wall"], len(mon["verdicts"])))
        if variant == "dbg":
            self_test(ctx, variant, paths)
            if ctx.prop in ("C06", "C09", "C10", "C11"):
                model_leg(ctx, paths, "M" + ctx.prop[1:])
            elif ev:
                binding_leg(ctx, paths)
    return finish(ctx, "model_checking", RULES["generic"],
                  ["position tables (byte offset, line, column per code point) come from the harness and are "
                   "re-derived locally by the TLA+ predicate CertOK before use",
                   "non-ASCII character classes come from Rust's char::is_whitespace and unicode-ident",
                   "bounded: the inputs explored are a finite sample plus TLC-enumerated families"])


# ----------------------------------------------------------------------------- relational

def run_to_dict(ctx, variant, cases, events, tag, threads=1, all_on_all=False, reuse=False):
    """Runs cases on a variant and returns {case id: output record} (and the summary record, if threaded)."""
    binp = common.build(variant)
    recs = {}
    summary = None
    cases = list(cases)
    for ci in range(0, len(cases), 4000):
        chunk = cases[ci:ci + 4000]
        cin = os.path.join(ctx.dir, "rcases-%s-%d.ndjson" % (tag, ci))
        cout = os.path.join(ctx.dir, "rout-%s-%d.ndjson" % (tag, ci))
        common.write_cases(cin, chunk)
        r = common.lexrun(binp, cin, cout, events=events, chars=True, timeout=900, threads=threads,
                          all_on_all=all_on_all, reuse=reuse)
        if r["timeout"] or r["rc"] != 0:
            raise ToolError("lexrun (%s) failed on a relational batch: %s" % (variant, r["out"][-500:]))
        for rec in common.read_ndjson(cout):
            if rec["id"] == "__threads__":
                summary = rec
            else:
                recs[rec["id"]] = rec
        os.remove(cin)
        os.remove(cout)
        ctx.evals += len(chunk)
    return recs, summary


def write_pairs(ctx, tag, tuples):
    """tuples: iterable of dicts {id, a: rec, b: rec[, ab: rec]} -> chunked trace files."""
    paths = []
    f = None
    n = 0          # tuples in the current file
    size = 0       # bytes in the current file (a TLC process deserializes one file into its 4 GB heap)
    for t in tuples:
        if f is None or n >= CHUNK or size > CHUNK_BYTES:
            if f:
                f.close()
            path = os.path.join(ctx.dir, "pairs-%s-%d.ndjson" % (tag, len(paths)))
            paths.append(path)
            f = open(path, "w", encoding="utf-8")
            n = size = 0
        try:
            line = json.dumps(t, ensure_ascii=False)
            line.encode("utf-8")
        except UnicodeEncodeError:
            line = json.dumps(t, ensure_ascii=True)
        f.write(line)
        f.write("\n")
        n += 1
        size += len(line)
    if f:
        f.close()
    return paths


def judge_pairs(ctx, tag, paths, witness_text=None):
    if not paths:
        return
    mon = common.monitor(ctx.prop, paths, ctx.dir, workers_each=2, parallel=8)
    judge(ctx, tag, mon, witness_text)
    log("[%s] %s: %d tuples monitored in %.1fs, %d verdict lines, %d skipped" % (
        ctx.prop, tag, mon["records"], mon["wall"], len(mon["verdicts"]), len(mon["skipped"])))
    ctx.extra["skipped_" + tag] = len(mon["skipped"])
    for pth in paths:
        if not ctx.keep:
            os.remove(pth)


REL_ASSUME = ["position tables come from the harness and are re-derived by CertOK",
              "pairs are joined by case id in the driver (pure data plumbing); every comparison is a TLA+ clause of spec/Rel.tla",
              "bounded: finite sample of inputs"]


def run_c17(ctx):
    q = ctx.quick()
    base_inputs(ctx, soup_n=4000 if q else 50000, lf_n=300 if q else 3000, mb_n=300 if q else 3000,
                trunc_n=200 if q else 2000)
    pick_samples(ctx)
    twin_mc(ctx, "bom")
    srcs = [c for c in ctx.cases.values() if not c["src"].startswith("\ufeff")]
    both = []
    for c in srcs:
        both.append({"id": c["id"] + ".a", "src": c["src"]})
        both.append({"id": c["id"] + ".b", "src": "\ufeff" + c["src"]})
    for variant in ("dbg", "rel"):
        recs, _ = run_to_dict(ctx, variant, both, events=False, tag=variant)
        paths = write_pairs(ctx, variant, ({"id": c["id"], "a": recs[c["id"] + ".a"], "b": recs[c["id"] + ".b"]}
                                           for c in srcs))
        judge_pairs(ctx, variant, paths)
    return finish(ctx, "model_checking",
                  "every input s not starting with U+FEFF (corpus, soup, derived families) is lexed as s and as "
                  "U+FEFF+s by the real code; TLC evaluates the shift relation of spec/Rel.tla (C17_*) on each pair",
                  REL_ASSUME)


KW_CONTEXTS = {
    "kw": ["{}", "{} x;", "a {} b", "{}=1;", "x={};"],
    "mkw": ["%{}", "%{} ", "%{}(a)", "%{} a=1;", "a %{} b;", "%{}(a,1)", "\"%{}(a)\"",
            # the keyword's spelling as a name: of a macro definition, a parameter, a variable, an argument, a label target
            "%macro {}; %mend;", "%macro m({}=1, x); %mend;", "%macro {} / des='x';", "%let {}=1;", "%local {} b;", "&{}", "&&{}.x",
            "%m({}=1)", "%goto {};", "%{}: a;", "%if a %then %{};", "%do {}=1 %to 2;", "%sysfunc({}(1))", "%mend {};",
            "%eval(1 %{} 2)", "%if &a = 1 %{} b;", "%do i = 1 %{} 10 %{} 2;"],
    "mnem": ["%eval(1 {} 2)", "%if a {} b %then;", "%eval({} 1)", "%sysevalf(1 {} 2)", "a {} b", "%eval(a{} 2)",
             "%eval(1 {}2)"],
    "suffix": ["'a'{}", "\"a\"{}", "\"&v\"{}", "'1f'{}", "'a'{};"],
    "hexnum": ["0{}x", "1{}", "%eval(0{}x+1)", "'{}'x", "\"{}\"x", "1{}5", ".5{}3", "1.5{}+3", "%sysevalf(1{}-3)",
               "%sysevalf(2.5{}+10 * .5{}-3)", "%sysfunc(f(1.5{}3))", "%eval(1{}5)", "%sysevalf(1{}5, int)", "%if 0{}x = 1{}1 %then;"],
    "datal": ["{};\n1 2\n;", ";{} ;\nab\n;", "x {};", "{}4;\na;b\n;;;;", "{}"],
}


def case_variants(word, rng, limit=64):
    letters = [i for i, c in enumerate(word) if c.isascii() and c.isalpha()]
    n = len(letters)
    if n <= 6:
        masks = range(1 << n)
    else:
        masks = {0, (1 << n) - 1}
        while len(masks) < limit:
            masks.add(rng.getrandbits(n))
    out = []
    for m in masks:
        w = list(word.lower())
        for bit, pos in enumerate(letters):
            if (m >> bit) & 1:
                w[pos] = w[pos].upper()
        out.append("".join(w))
    return out


def keyword_lists():
    """Keyword spellings from the TokenType names (naming rule of spec/Tokens.tla)."""
    import re
    text = open(os.path.join(common.SPEC, "Tokens.tla")).read()
    kw = re.search(r"KwTypes == \{(.*?)\}", text, re.S).group(1)
    kwm = re.search(r"KwmTypes == \{(.*?)\}", text, re.S).group(1)
    special = {"KwAllVar": ["_ALL_"], "KwNullDataset": ["_NULL_"], "KwCorr": ["CORR", "CORRESPONDING"],
               "KwExecute": ["EXEC", "EXECUTE"], "KwmInclude": ["INCLUDE", "INC"]}
    kws, mkws = [], []
    for t in re.findall(r'"(\w+)"', kw):
        kws.extend(special.get(t, [t[2:].upper()]))
    for t in re.findall(r'"(\w+)"', kwm):
        mkws.extend(special.get(t, [t[3:].upper()]))
    return kws, mkws


def run_c16(ctx):
    q = ctx.quick()
    rng = ctx.rng
    kws, mkws = keyword_lists()
    pairs = []   # (base, variant)
    lim = 12 if q else 64

    def fam(name, words, ctxs, per_word_ctx):
        for w in words:
            for cx in (ctxs if per_word_ctx is None else rng.sample(ctxs, min(per_word_ctx, len(ctxs)))):
                base = cx.replace("{}", w.lower())
                for v in case_variants(w, rng, lim):
                    var = cx.replace("{}", v)
                    if var != base:
                        pairs.append((name, base, var))

    fam("kw", kws, KW_CONTEXTS["kw"], 2 if q else None)
    fam("mkw", mkws, KW_CONTEXTS["mkw"], 2 if q else None)
    fam("mnem", ["eq", "ne", "lt", "le", "gt", "ge", "in", "and", "or", "not"], KW_CONTEXTS["mnem"], None)
    fam("suffix", ["b", "d", "dt", "n", "t", "x"], KW_CONTEXTS["suffix"], None)
    fam("hexnum", ["a", "f", "e", "abc", "ef", "x"], KW_CONTEXTS["hexnum"], None)
    fam("datal", ["datalines", "cards", "lines"], KW_CONTEXTS["datal"], None)
    # random mangling of everything else
    base_inputs(ctx, soup_n=2500 if q else 40000, trunc_n=100 if q else 1000, gen_n=1500 if q else 20000, cover_n=300 if q else 20000)
    ctx.add_cases("num", gen.num_family(rng, 1200 if q else 20000, exhaustive_len=2))
    ctx.add_cases("str", gen.string_family(rng, 800 if q else 10000))
    for c in list(ctx.cases.values()):
        v = gen.case_mangle(c["src"], rng)
        if v != c["src"]:
            pairs.append(("mangle", c["src"], v))
    if ctx.replay_case is not None:
        pairs = [("replay", ctx.replay_case.get("base", ctx.replay_case["src"]), ctx.replay_case["src"])]
    ctx.cases.clear()
    ctx.families.clear()
    both, ids = [], []
    seen = set()
    for name, base, var in pairs:
        if (base, var) in seen or not gen.valid_utf8(base):
            continue
        seen.add((base, var))
        cid = "%s-%d" % (name, len(ids))
        ctx.cases[cid] = {"id": cid, "src": var, "base": base, "fam": name}
        ctx.families[name] = ctx.families.get(name, 0) + 1
        ids.append(cid)
        both.append({"id": cid + ".a", "src": base})
        both.append({"id": cid + ".b", "src": var})
    pick_samples(ctx)
    twin_mc(ctx, "case")
    for variant in ("dbg", "rel"):
        recs, _ = run_to_dict(ctx, variant, both, events=False, tag=variant)
        paths = write_pairs(ctx, variant, ({"id": i, "a": recs[i + ".a"], "b": recs[i + ".b"]} for i in ids))
        judge_pairs(ctx, variant, paths)
    return finish(ctx, "model_checking",
                  "pairs (s, case variant of s): all 2^n case variants of every keyword, macro keyword, mnemonic, literal "
                  "suffix, hex digit / exponent marker and datalines keyword with up to 6 letters (sampled above that) in "
                  "context templates, plus a random ASCII case mangling of corpus and soup inputs; TLC evaluates C16_* of "
                  "spec/Rel.tla on each pair",
                  REL_ASSUME)


def run_c18(ctx):
    q = ctx.quick()
    base_inputs(ctx, soup_n=6000 if q else 80000, trunc_n=400 if q else 4000, lf_n=100 if q else 1000)
    ctx.add_cases("sepfam", gen.sep_family(ctx.rng, 3000 if q else 40000))
    pick_samples(ctx)
    seppair_mc(ctx)
    cases = list(ctx.cases.values())
    for on, off in (("dbg", "nosep"),) + ((("rel", "relnosep"),) if not q else ()):
        ra, _ = run_to_dict(ctx, on, cases, events=False, tag=on)
        rb, _ = run_to_dict(ctx, off, cases, events=False, tag=off)
        paths = write_pairs(ctx, on, ({"id": c["id"], "a": ra[c["id"]], "b": rb[c["id"]]} for c in cases))
        nsep = sum(1 for c in cases if ra[c["id"]].get("ok") and any(t["ty"] == "MacroSep" for t in ra[c["id"]]["toks"]))
        ctx.extra["cases_with_MacroSep_" + on] = nsep
        if nsep == 0 and ctx.replay_case is None:
            raise ToolError("vacuous: no input produced a MacroSep token")
        judge_pairs(ctx, on, paths)
    return finish(ctx, "model_checking",
                  "every input is lexed by a build with the macro_sep feature and one without (same tree); TLC evaluates "
                  "erase-equality, error index mapping and the MacroSep placement rule (C18_* of spec/Rel.tla)",
                  REL_ASSUME)


def run_c19(ctx):
    q = ctx.quick()
    base_inputs(ctx, soup_n=4000 if q else 60000, trunc_n=300 if q else 3000, mb_n=200 if q else 2000)
    # neighbours in the run order that differ only in what follows a common prefix (address- or position-keyed caches)
    adj = []
    for pre in ["%if &a = 10 ", "%do i = 1 ", "%let x=%eval(1 ", "%if abc ", "%put %eval(a ", "x = 1 ", "%m(a ", "\"a "]:
        for fol in ["%then %put y;", "%left(&b) = 7 %then;", "%to 5; %end;", "%nn 5; %end;", "%by 2;", "%str(a) ;", "%let b=1;", "%m(1);", "%mac2 ;",
                    "%end;", "%eval(2));", "%*c; ;", "%lbl: ;"]:
            adj.append(pre + fol)
    ctx.add_cases("adjacent", adj)
    pick_samples(ctx)
    cases = list(ctx.cases.values())
    ref, _ = run_to_dict(ctx, "dbg", cases, events=True, tag="dbg")
    others = [("rel", True), ("nightly", False), ("plain", False)]
    for variant, ev in others:
        recs, _ = run_to_dict(ctx, variant, cases, events=ev, tag=variant)
        paths = write_pairs(ctx, "dbg-" + variant,
                            ({"id": c["id"], "a": strip_variant(ref[c["id"]], ev), "b": strip_variant(recs[c["id"]], ev)}
                             for c in cases))
        judge_pairs(ctx, "dbg-" + variant, paths)
        if variant == "rel":
            rel = recs
    # threads: every case on every thread, in a different order per thread, while the others are lexing
    thr, summary = run_to_dict(ctx, "rel", cases, events=False, tag="threads", threads=16, all_on_all=True)
    if summary is None:
        raise ToolError("threaded run produced no summary")
    ctx.extra["threads"] = {"threads": summary["threads"], "max_overlap": summary["max_overlap"],
                            "calls": summary["calls"], "mismatching_cases": len(summary["mismatches"])}
    if summary["max_overlap"] < 2:
        raise ToolError("threaded run achieved no overlap")
    for mm in summary["mismatches"][:50]:
        ctx.violations.append(("C19_threads", mm["id"], "result differs between threads (thread %s)" % mm["thread"], "rel"))
    paths = write_pairs(ctx, "rel-threads",
                        ({"id": c["id"], "a": strip_variant(rel[c["id"]], False), "b": strip_variant(thr[c["id"]], False)}
                         for c in cases))
    judge_pairs(ctx, "rel-threads", paths)
    # history: the same case again after all others have been lexed in the same process (reverse order)
    rev, _ = run_to_dict(ctx, "rel", list(reversed(cases)), events=False, tag="rev")
    paths = write_pairs(ctx, "rel-rev",
                        ({"id": c["id"], "a": strip_variant(rel[c["id"]], False), "b": strip_variant(rev[c["id"]], False)}
                         for c in cases))
    judge_pairs(ctx, "rel-rev", paths)
    # history: a caller that reads every source into one reused buffer (all sources at the same address)
    reu, _ = run_to_dict(ctx, "rel", cases, events=False, tag="reuse", reuse=True)
    paths = write_pairs(ctx, "rel-reuse",
                        ({"id": c["id"], "a": strip_variant(rel[c["id"]], False), "b": strip_variant(reu[c["id"]], False)}
                         for c in cases))
    judge_pairs(ctx, "rel-reuse", paths)
    statics = scan_shared_state()
    ctx.extra["shared_state_scan"] = statics
    return finish(ctx, "model_checking",
                  "the same inputs are lexed by the debug-assertion build, the optimized build, the nightly-toolchain "
                  "build (rustc_nightly path of add_token), a build without the hooks, by 16 threads concurrently (every "
                  "case on every thread, different order per thread) and in reversed order in one process; TLC requires "
                  "equal tokens, resolved view, errors, literal buffer (C19_same) and equal event streams for the hooked "
                  "builds (C19_events). Thread schedules are sampled by the OS, not enumerated.",
                  REL_ASSUME + ["schedules are sampled; the crate has no shared mutable state to enumerate over (see shared_state_scan)"])


def strip_variant(rec, keep_events):
    r = dict(rec)
    if not keep_events:
        r["events"] = []
    for k in ("iters", "fin_iters", "max_stack", "lstarts", "at_eof"):
        r.pop(k, None)
    r["budget_exceeded"] = bool(rec.get("budget_exceeded", False))
    return r


def scan_shared_state():
    """Greps the lexer crate for constructs that could make a result depend on anything but its input."""
    import re
    pats = r"static\s+mut|thread_local!|lazy_static!|OnceCell|OnceLock|AtomicU|AtomicI|AtomicBool|Mutex<|RwLock<|RefCell<|UnsafeCell"
    hits = []
    root = os.path.join(common.REPO, "crates/sas-lexer/src")
    for d, _, fs in os.walk(root):
        if os.sep + "tests" in d:
            continue
        for fn in fs:
            if fn.endswith(".rs"):
                for ln, line in enumerate(open(os.path.join(d, fn), encoding="utf-8"), 1):
                    if re.search(pats, line) and not line.strip().startswith("//"):
                        hits.append("%s:%d" % (os.path.relpath(os.path.join(d, fn), common.REPO), ln))
    return hits


def closed_prefix(rec):
    if not rec.get("ok") or rec.get("budget_exceeded"):
        return False
    c = rec["at_eof"]
    if not (len(c["modes"]) == 1 and c["modes"][0]["k"] == "Default" and c["nest"] == 0 and c["pend"] == [0]
            and not c["ck"]["set"]):
        return False
    toks = rec["toks"]
    if len(toks) < 2:
        return False
    t = toks[-2]
    lastdef = [x["ty"] for x in toks[:-1] if x["ch"] == "DEFAULT"]
    if lastdef and lastdef[-1] != "SEMI":
        return False
    if not (t["eb"] == rec["len"] and t["eb"] > t["b"] and t["ty"] in ("SEMI", "PredictedCommentStat", "MacroComment")
            and rec["cs"][-1] == ";"):
        return False
    if t["ty"] == "MacroComment":
        q = ""
        body = rec["cs"][t["c"] + 2:]
        for k, ch in enumerate(body):
            if ch == ";" and not q:
                return k == len(body) - 1
            if ch in "'\"":
                q = ch if not q else ("" if q == ch else q)
        return False
    return True


def run_c15(ctx):
    q = ctx.quick()
    rng = ctx.rng
    base_inputs(ctx, soup_n=5000 if q else 60000)
    cands = []
    seen = set()
    for c in ctx.cases.values():
        s = c["src"]
        cuts = [i + 1 for i, ch in enumerate(s) if ch == ";"]
        for cut in cuts[:8] + [len(s)]:
            a = s[:cut]
            if a and a not in seen:
                seen.add(a)
                cands.append(a)
    # prefixes that leave something behind other than the configuration (definitions, literal-buffer content, flags a
    # statement could set): each is paired with every look-behind-sensitive continuation below
    carriers = ["total = 1 %if &c %then + 2;", "x %if 1 %then y;", "a = b %then c;", "%macro m; x %mend;", "%macro Util / des='no params'; %mend;",
                "title 'it''s';", "%put %let a=1;", "title 'caf\u00e9';", "x = 1;\x0b* note;", "%let s=%str(%'x);", "a='41'x;", "%do i=1 %to 2; %end;",
                "%if 1 %then %do; %end;", "%m(a=1);", "%let x=%eval(1+1);", "data a; set b; run;", "%lbl: x;", "/* c */ ;", "%* c;", "* c;"]
    cands = carriers + cands
    rpl = ctx.replay_case
    if rpl is not None:
        cands = [rpl.get("A", rpl["src"])]
    ctx.cases.clear()
    ctx.families.clear()
    ctx.extra.pop("_seen", None)
    acases = [{"id": "A%d" % i, "src": a} for i, a in enumerate(cands)]
    recsA, _ = run_to_dict(ctx, "dbg", acases, events=False, tag="A")
    closed = [c for c in acases if closed_prefix(recsA[c["id"]])]
    ctx.extra["candidate_prefixes"] = len(acases)
    ctx.extra["closed_prefixes"] = len(closed)
    if len(closed) < 50 and ctx.replay_case is None:
        raise ToolError("vacuous: only %d closed prefixes found" % len(closed))
    frag = gen.OPEN_FRAGS + gen.MACRO_FRAGS
    bpool = [f for f in frag] + [x + y for x in rng.sample(frag, 40) for y in rng.sample(frag, 10)] + \
        gen.soup(rng, 1500 if q else 20000) + [s for _, s in gen.corpus() if len(s) < 300]
    bpool = [b for b in gen.dedup(bpool) if gen.valid_utf8(b) and not b.startswith("\ufeff")]
    # continuations whose first default-channel token is decided by the look-behind (statement start), behind hidden tokens
    sens = [h + k for h in ["", " ", "\n", "/*c*/", "/*c*/ \n", "\t\n "]
            for k in ["datalines;\n1 2\n;\nrun;", "cards;\nx\n;", "lines4;\na;b\n;;;;", "datalines4;\n;;;;", "cards4 ;\n;;;;x",
                      "DataLines;\n1\n;", "datalines", "datalines x;", "* c;", "*c;a=1;", "* 'c;' ;", "%lbl: a;", "%lbl : %let a=1;",
                      "%let a=1;", "%if 1 %then a;", "%* c;", "a*b;", "=*c;", "%m * c;", "%m(1) %lbl:", "'s' * c;", ";* c;",
                      "%put a; datalines;\n1\n;", "%end; * c;", "%macro m; * c; %mend;"]]
    # continuations with unquoted payloads (the literal buffer is shared with the prefix)
    sens += [" %else * 3;", "%if &d %then %put one; %else * a comment statement;", "%else %do; * c; %end;", "%then * c;", "%end; * c;",
             "%mend; * c;", "%m(1, b=2);", "%macro m; x %mend; %m(1)", "%put %let b=2;", "title \"Report %util(a=1) end\";", "\x0b* note;\nrun;",
             "%let s = %str(%'s);", "%put %nrstr(%%a);", "x='it''s';", "t = \"a\"\"b\";", "%put %str(a%)b) 'c''d';", "y='41'x;",
             "%let q=%str(%();", "%m('a''b', %str(%,))", "title \"&v it\"\"s\";", "%str(%'s)", "'a''b'"]
    per_a = 6 if q else 30
    maxpairs = 10000 if q else 150000
    tuples = []
    rng.shuffle(closed)
    cset = set(carriers)
    closed.sort(key=lambda a: a["src"] not in cset)     # the carriers first (stable: the shuffled order of the others is kept)
    for a in closed:
        for b in ([rpl.get("B", "")] if rpl is not None else
                  (sens + rng.sample(bpool, per_a) if a["src"] in cset else rng.sample(bpool, per_a) + rng.sample(sens, 2 if q else 8))):
            tuples.append((a, b))
        if len(tuples) >= maxpairs:
            break
    bcases, abcases = {}, []
    for k, (a, b) in enumerate(tuples):
        if b not in bcases:
            bcases[b] = {"id": "B%d" % len(bcases), "src": b}
        cid = "P%d" % k
        ctx.cases[cid] = {"id": cid, "src": a["src"] + b, "A": a["src"], "B": b, "fam": "pair"}
        abcases.append({"id": cid, "src": a["src"] + b})
    ctx.families["pair"] = len(tuples)
    pick_samples(ctx)
    compose_mc(ctx)
    for variant in ("dbg", "rel"):
        ra, _ = run_to_dict(ctx, variant, [a for a in closed], events=False, tag="a" + variant)
        rb, _ = run_to_dict(ctx, variant, list(bcases.values()), events=False, tag="b" + variant)
        rab, _ = run_to_dict(ctx, variant, abcases, events=False, tag="ab" + variant)
        paths = write_pairs(ctx, variant, ({"id": "P%d" % k, "a": ra[a["id"]], "b": rb[bcases[b]["id"]], "ab": rab["P%d" % k]}
                                           for k, (a, b) in enumerate(tuples)))
        judge_pairs(ctx, variant, paths)
    return finish(ctx, "model_checking",
                  "closed prefixes A are found among all ';'-cuts of corpus and soup inputs by the recorded end-of-input "
                  "configuration (hook snapshot: mode stack [Default], nesting 0, pending [false], no checkpoint) and a last "
                  "token that is a consumed ';' or statement comment; each is paired with continuations B (fragments, "
                  "fragment pairs, soup, corpus; not starting with U+FEFF); TLC evaluates C15_* of spec/Rel.tla on "
                  "(lex(A+B), lex(A), lex(B)) and re-checks closedness itself (ClosedPrefix)",
                  REL_ASSUME)


# ----------------------------------------------------------------------------- design MC and transition cover

CLASS_CHAR = {1: "\u00a0", 2: "\u00e9", 3: "\u0301", 4: "\U0001F525", 5: "\u00ac", 6: "\u00a6", 7: "\u2218"}
FRAGSETS = ["open", "macrostat", "call", "eval", "str"]
COVER_DIR = os.path.join(common.VERIF, "work", "cover")

MC_CFG = """SPECIFICATION Spec
%(view)s
CONSTRAINT Bounds
INVARIANT %(invs)s
%(props)s
CONSTANTS
  FragSet = "%(fs)s"
  MaxFrags = %(maxfrags)d
  MaxStack = %(stack)d
  MaxCalls = %(calls)d
  MaxWindow = %(window)d
  MaxSpec = %(spec)d
  MaxToksSinceCk = %(tsc)d
  Emit1 = %(emit)s
  MacroSepOn = TRUE
CHECK_DEADLOCK FALSE
"""
DESIGN_INVS = ("NoFault NoInternalError CkptDiscipline CkptBelowStack TokensOrdered LinesMatch PendNonEmpty DoneShape "
               "LitPartition DoneBalanced DoneErrPairs DoneTokHasErr DoneWidths BufferOK")


def mc_run(workdir, name, fs, stack, window, emit, invs=DESIGN_INVS, progress=True, timeout=1800, workers=16, calls=9,
           r1_frags=None):
    """One TLC run of spec/MC_SasLexer.tla.  Regime R2 (VIEW, any input length) by default; with r1_frags=N regime
    R1: no view, all inputs of at most N fragments with their full history.  Returns (stats, list of cover inputs)."""
    import re
    r1 = r1_frags is not None
    cfg = MC_CFG % dict(invs=invs + (" CoverAll" if emit else ""), props="PROPERTY Progress" if progress else "",
                        view="" if r1 else "VIEW View", maxfrags=r1_frags if r1 else 1000,
                        spec=80 if r1 else 8, tsc=40 if r1 else 4,
                        fs=fs, stack=stack, window=9 if r1 else window, calls=calls, emit=str(int(emit)))
    rc, out, wall = common.tlc("MC_SasLexer", cfg, workdir, name, workers=workers, timeout=timeout, heap="16g")
    if "Model checking completed. No error has been found." not in out:
        m = re.search(r"(Invariant \w+ is violated|Temporal properties were violated|Error: .*)", out)
        raise ToolError("design model check %s failed: %s\n%s" % (name, m.group(1) if m else "?", out[-1500:]))
    st = common.parse_tlc_stats(out)
    inputs = []
    if emit:
        for line in out.splitlines():
            m = re.match(r'<<"REPLAY", (".*")>>$', line.strip())
            if m:
                j = json.loads(json.loads(m.group(1)))
                inputs.append("".join(CLASS_CHAR.get(k, c) if k else c for c, k in zip(j["cs"], j["cc"])))
    return {"regime": "R1 (all inputs <= %d fragments, full history)" % r1_frags if r1 else "R2 (view: configuration + window)",
            "fragset": fs, "max_stack": stack, "max_open_calls": calls, "window_fragments": window, "states": st["states"],
            "distinct": st["distinct"], "wall_s": round(wall, 1)}, inputs


COVER_BOUNDS = {   # fragment set -> (max stack, max open calls, window in fragments)
    "open": (8, 9, 3), "macrostat": (9, 1, 2), "call": (30, 1, 2), "eval": (30, 1, 2), "str": (30, 1, 2),
}


def build_cover(small=False, log_fn=log):
    """Generates the transition cover of every fragment set (used by setup.sh and, if missing, by the checks)."""
    os.makedirs(COVER_DIR, exist_ok=True)
    total = 0
    for fs in FRAGSETS:
        stack, calls, window = COVER_BOUNDS[fs]
        if small:
            stack, window = min(stack, 7), 2
        st, inputs = mc_run(COVER_DIR, "cover-" + fs, fs, stack, window, True, invs="NoFault", progress=False, calls=calls)
        if fs == "open":   # few configurations in open code: also (configuration, next two fragments)
            st, more = mc_run(COVER_DIR, "cover-" + fs, fs, stack, window, 2, invs="NoFault", progress=False, calls=calls)
            inputs += more
        with open(os.path.join(COVER_DIR, fs + ".ndjson"), "w", encoding="utf-8") as f:
            for s_ in gen.dedup(inputs):
                f.write(json.dumps(s_, ensure_ascii=False) + "\n")
        with open(os.path.join(COVER_DIR, fs + ".stats.json"), "w") as f:
            json.dump(st, f)
        total += len(inputs)
        log_fn("[cover] %s: %d distinct states, %d inputs, %.0fs" % (fs, st["distinct"], len(inputs), st["wall_s"]))
    return total


def cover_inputs(ctx, n_per_set=None):
    """Inputs of the transition cover (all, or a seeded sample per fragment set)."""
    if not all(os.path.exists(os.path.join(COVER_DIR, fs + ".ndjson")) for fs in FRAGSETS):
        log("[cover] not found, generating a smaller one")
        build_cover(small=True)
    out = []
    sizes = {}
    for fs in FRAGSETS:
        with open(os.path.join(COVER_DIR, fs + ".ndjson"), encoding="utf-8") as f:
            items = [json.loads(l) for l in f]
        sizes[fs] = len(items)
        if n_per_set is not None and len(items) > n_per_set:
            items = ctx.rng.sample(items, n_per_set)
        out.extend(items)
    ctx.extra["transition_cover_sizes"] = sizes
    return out


def design_mc(ctx):
    """Model checks the design invariants on the operational model (regime R2) and records the counts.
    Bounds: (fragment set, max stack, max open calls, window in fragments)."""
    if ctx.replay_case is not None:
        return
    if ctx.quick():
        sets = [("open", 8, 9, 3), ("str", 30, 1, 2)]
    else:
        sets = [("open", 12, 9, 3), ("macrostat", 12, 1, 2), ("call", 30, 1, 2), ("eval", 30, 1, 2), ("str", 30, 1, 2)]
    runs = []
    for fs, stack, calls, window in sets:
        st, _ = mc_run(ctx.dir, "mc-%s" % fs, fs, stack, window, False, calls=calls)
        runs.append(st)
        ctx.states += st["distinct"]
        ctx.transitions += st["states"]
        log("[mc] R2 %s stack<=%d calls<=%d window<=%d: %d distinct states, %d generated, %.0fs, invariants hold" % (
            fs, stack, calls, window, st["distinct"], st["states"], st["wall_s"]))
    for fs, n in ([("str", 3), ("call", 3)] if ctx.quick() else [(f, 4) for f in FRAGSETS]):
        st, _ = mc_run(ctx.dir, "r1-%s" % fs, fs, 40, 9, False, calls=9, r1_frags=n,
                       invs=DESIGN_INVS.replace("CkptDiscipline ", ""))
        runs.append(st)
        ctx.states += st["distinct"]
        ctx.transitions += st["states"]
        log("[mc] R1 %s all inputs of <= %d fragments: %d distinct states, %.0fs, invariants hold" % (
            fs, n, st["distinct"], st["wall_s"]))
    ctx.extra["design_model_checking"] = {"module": "spec/MC_SasLexer.tla", "invariants": DESIGN_INVS.split() + ["Progress"],
                                          "runs": runs}


def opencode_mc(ctx):
    """C11 at the design level: the operational model (SasLexer.tla) against the declarative reference lexer
    (OpenCode.tla) on every macro-free input of at most N fragments of the open-code set (regime R1, full history)
    and, in the thorough tier, on the R2 representatives as well."""
    if ctx.replay_case is not None:
        return
    runs = []
    n = 4
    st, _ = mc_run(ctx.dir, "oc-r1", "open", 40, 9, False, calls=9, r1_frags=n, invs="OpenCodeEq NoFault", progress=False)
    runs.append(st)
    if not ctx.quick():
        st2, _ = mc_run(ctx.dir, "oc-r2", "open", 12, 3, False, calls=9, invs="OpenCodeEq NoFault", progress=False)
        runs.append(st2)
    for r in runs:
        ctx.states += r["distinct"]
        ctx.transitions += r["states"]
        log("[mc] OpenCodeEq %s: %d distinct states, %.0fs, model = reference lexer on macro-free inputs" % (
            r["regime"], r["distinct"], r["wall_s"]))
    ctx.extra["design_model_checking"] = {"module": "spec/MC_SasLexer.tla", "invariants": ["OpenCodeEq", "NoFault"], "runs": runs}


def views_proof(ctx):
    """C05, unbounded: spec/BufferProof.tla (theorem ViewsAgreeThm: bulk view = accessors for every buffer whose token
    starts are non-decreasing and whose line indices designate lines starting at or before the token) is checked by
    tlapm.  The result is recorded; it never changes the exit code (the verdict is about the implementation)."""
    if ctx.replay_case is not None:
        return
    import subprocess
    d = os.path.join(ctx.dir, "tlaps")
    shutil.rmtree(d, ignore_errors=True)
    os.makedirs(d)
    for fn in ("Buffer.tla", "BufferProof.tla"):
        shutil.copy(os.path.join(common.SPEC, fn), d)
    t0 = time.time()
    try:
        p = subprocess.run(["timeout", "300", "tlapm", "--threads", "8", "--cache-dir", os.path.join(d, "cache"), "BufferProof.tla"],
                           cwd=d, stdout=subprocess.PIPE, stderr=subprocess.STDOUT, text=True)
        out = p.stdout
    except OSError as e:
        out = "tlapm not runnable: %s" % e
    import re
    m = re.search(r"All (\d+) obligations? proved", out)
    status = "proved" if m else "not established"
    ctx.extra["unbounded_proof"] = {"module": "spec/BufferProof.tla", "theorems": ["ViewsAgreeThm", "LineUnique", "ViewsMatchTextThm"], "prover": "tlapm (SMT back end)",
                                    "status": status, "obligations": int(m.group(1)) if m else 0, "wall_s": round(time.time() - t0, 1)}
    log("[proof] BufferProof (ViewsAgreeThm, LineUnique, ViewsMatchTextThm): %s (%s obligations, %.1fs)" % (status, m.group(1) if m else "-", time.time() - t0))
    if not m:
        log("[proof] tlapm output tail: " + out[-400:].replace("\n", " | "))
    shutil.rmtree(d, ignore_errors=True)


def buffer_mc(ctx):
    """The hypotheses of the proved theorems (BufOK2) as the invariant BufferOK of the operational model: all inputs of
    at most N fragments (R1), two fragment sets in the quick tier, all five in the thorough tier."""
    if ctx.replay_case is not None:
        return
    runs = []
    for fs, n in ([("open", 3), ("macrostat", 2)] if ctx.quick() else [(f, 3) for f in FRAGSETS]):
        st, _ = mc_run(ctx.dir, "buf-%s" % fs, fs, 40, 9, False, calls=9, r1_frags=n, invs="BufferOK NoFault", progress=False)
        runs.append(st)
        ctx.states += st["distinct"]
        ctx.transitions += st["states"]
        log("[mc] BufferOK R1 %s all inputs of <= %d fragments: %d distinct states, %.0fs, holds" % (fs, n, st["distinct"], st["wall_s"]))
    ctx.extra["buffer_invariant_model_checking"] = {"module": "spec/MC_SasLexer.tla", "invariant": "BufferOK", "runs": runs}


def views_mc(ctx):
    """C05 at the design level: spec/MC_Views.tla enumerates every buffer satisfying the buffer invariant over small
    texts and checks bulk view = accessors = text (formulas of buffer.rs in spec/Buffer.tla)."""
    if ctx.replay_case is not None:
        return
    n, k = (7, 5) if ctx.quick() else (9, 6)
    cfg = "SPECIFICATION Spec\nINVARIANT ViewsAgree ViewsMatchText\nCONSTANTS\n  N = %d\n  K = %d\nCHECK_DEADLOCK FALSE\n" % (n, k)
    rc, out, wall = common.tlc("MC_Views", cfg, ctx.dir, "mc-views", workers=8, timeout=1800, heap="8g")
    if "Model checking completed. No error has been found." not in out:
        raise ToolError("MC_Views failed:\n" + out[-1500:])
    st = common.parse_tlc_stats(out)
    ctx.states += st["distinct"]
    ctx.transitions += st["states"]
    ctx.extra["design_model_checking"] = {"module": "spec/MC_Views.tla", "invariants": ["ViewsAgree", "ViewsMatchText"],
                                          "text_length_max": n, "tokens_max": k, "distinct_buffers": st["distinct"],
                                          "wall_s": round(wall, 1), "exhaustive": True}
    log("[mc] MC_Views N=%d K=%d: %d buffers, %.0fs, bulk view = accessors = text" % (n, k, st["distinct"], wall))


def seppair_mc(ctx):
    """C18 at the design level: spec/MC_SepPair.tla runs the model with and without the feature in lockstep."""
    if ctx.replay_case is not None:
        return
    sets = [("macrostat", 7, 1, 2)] if ctx.quick() else [("macrostat", 9, 1, 2), ("call", 30, 1, 2), ("str", 30, 1, 2)]
    runs = []
    for fs, stack, calls, window in sets:
        cfg = (MC_CFG % dict(invs="SameConfiguration SepErase SepPlacement SepPlacementStrict NoFault", props="",
                             view="VIEW PView", maxfrags=1000, spec=8, tsc=4, fs=fs, stack=stack, window=window, calls=calls,
                             emit="0")).replace("SPECIFICATION Spec", "SPECIFICATION PSpec")
        rc, out, wall = common.tlc("MC_SepPair", cfg, ctx.dir, "mc-seppair-" + fs, workers=16, timeout=3600, heap="16g")
        if "Model checking completed. No error has been found." not in out:
            raise ToolError("MC_SepPair failed:\n" + out[-1500:])
        st = common.parse_tlc_stats(out)
        ctx.states += st["distinct"]
        ctx.transitions += st["states"]
        runs.append({"fragset": fs, "max_stack": stack, "distinct": st["distinct"], "states": st["states"], "wall_s": round(wall, 1)})
        log("[mc] MC_SepPair %s stack<=%d: %d distinct states, %.0fs, invariants hold" % (fs, stack, st["distinct"], wall))
    ctx.extra["design_model_checking"] = {"module": "spec/MC_SepPair.tla",
                                          "invariants": ["SameConfiguration", "SepErase", "SepPlacement", "SepPlacementStrict", "NoFault"],
                                          "runs": runs}


def compose_mc(ctx):
    """C15 at the design level: spec/MC_Compose.tla starts a fresh lexer at every closed boundary and runs both in lockstep."""
    if ctx.replay_case is not None:
        return
    sets = [("open", 8, 9, 3), ("macrostat", 6, 1, 2)] if ctx.quick() else \
        [("open", 10, 9, 3), ("macrostat", 7, 1, 2), ("str", 12, 1, 2), ("call", 12, 1, 2)]
    runs = []
    for fs, stack, calls, window in sets:
        cfg = (MC_CFG % dict(invs="Compose NoFault", props="", view="VIEW CView", maxfrags=1000, spec=8, tsc=4, fs=fs,
                             stack=stack, window=window, calls=calls, emit="0")).replace("SPECIFICATION Spec", "SPECIFICATION CSpec")
        rc, out, wall = common.tlc("MC_Compose", cfg, ctx.dir, "mc-compose-" + fs, workers=16, timeout=3600, heap="16g")
        if "Model checking completed. No error has been found." not in out:
            raise ToolError("MC_Compose failed:\n" + out[-1500:])
        st = common.parse_tlc_stats(out)
        ctx.states += st["distinct"]
        ctx.transitions += st["states"]
        runs.append({"fragset": fs, "max_stack": stack, "distinct": st["distinct"], "states": st["states"], "wall_s": round(wall, 1)})
        log("[mc] MC_Compose %s stack<=%d: %d distinct states, %.0fs, Compose holds" % (fs, stack, st["distinct"], wall))
    ctx.extra["design_model_checking"] = {"module": "spec/MC_Compose.tla", "invariants": ["Compose", "NoFault"], "runs": runs}


def twin_mc(ctx, twin):
    """C16 / C17 at the design level: spec/MC_Twin.tla runs a twin lexer on the upper-cased / BOM-prefixed text."""
    if ctx.replay_case is not None:
        return
    sets = [("open", 8, 9, 3), ("str", 30, 1, 2)] if ctx.quick() else \
        [("open", 10, 9, 3), ("macrostat", 9, 1, 2), ("str", 30, 1, 2), ("call", 30, 1, 2), ("eval", 30, 1, 2)]
    runs = []
    for fs, stack, calls, window in sets:
        cfg = (MC_CFG % dict(invs="TwinSame NoFault", props="", view="VIEW View", maxfrags=1000, spec=8, tsc=4, fs=fs,
                             stack=stack, window=window, calls=calls, emit="0")
               ).replace("SPECIFICATION Spec", "SPECIFICATION TSpec").replace("CONSTANTS\n", "CONSTANTS\n  Twin = \"%s\"\n" % twin)
        rc, out, wall = common.tlc("MC_Twin", cfg, ctx.dir, "mc-twin-" + fs, workers=16, timeout=3600, heap="16g")
        if "Model checking completed. No error has been found." not in out:
            raise ToolError("MC_Twin failed:\n" + out[-1500:])
        st = common.parse_tlc_stats(out)
        ctx.states += st["distinct"]
        ctx.transitions += st["states"]
        runs.append({"fragset": fs, "max_stack": stack, "distinct": st["distinct"], "states": st["states"], "wall_s": round(wall, 1)})
        log("[mc] MC_Twin(%s) %s stack<=%d: %d distinct states, %.0fs, TwinSame holds" % (twin, fs, stack, st["distinct"], wall))
    ctx.extra["design_model_checking"] = {"module": "spec/MC_Twin.tla", "twin": twin, "invariants": ["TwinSame", "NoFault"], "runs": runs}


# ----------------------------------------------------------------------------- Gen (C12-C14)

UNI_WS = ["\u00a0", "\u3000", "\u2003", "\x0b", "\x0c", "\u0085", "\t", "\u2028"]
GEN_FOCUS = ["Builtin", "CallArgs", "StrCall", "DQuoted", "MacroDef", "DoBlock", "MacroStmt"]


def gen_programs(ctx, fault, sim_n, fuel_sim, fuel_mc=None, mc_timeout=300):
    """Runs TLC on spec/Gen.tla (simulation, and optionally exhaustive enumeration with small fuel) and
    returns the list of derivations (dicts with src, exps, fault)."""
    import re
    progs = []
    stats = {"sim_behaviours": 0, "mc_states": 0, "mc_distinct": 0}

    def harvest(out):
        n = 0
        for line in out.splitlines():
            m = re.match(r'<<"REPLAY", (".*")>>$', line.strip())
            if m:
                j = json.loads(json.loads(m.group(1)))
                progs.append(j)
                n += 1
        return n

    cfg = "SPECIFICATION Spec\nCONSTANTS\n  Fuel = %d\n  AllowFault = %s\n  Small = FALSE\n  Focus = \"%s\"\nCHECK_DEADLOCK FALSE\n"
    fl = "TRUE" if fault else "FALSE"
    # whole programs under several fuel bounds, then derivations concentrated on one construct each
    runs = [(fuel, "", sim_n // len(fuel_sim)) for fuel in fuel_sim] + \
           [(6, fc, max(200, sim_n // 16)) for fc in GEN_FOCUS]
    for k, (fuel, focus, num) in enumerate(runs):
        rc, out, wall = common.tlc("Gen", cfg % (fuel, fl, focus), ctx.dir, "gen-sim-%d" % k, workers=1, timeout=600,
                                   extra_args=["-simulate", "num=%d" % num, "-depth", "900",
                                               "-seed", str(ctx.seed + k)])
        n = harvest(out)
        if n == 0:
            raise ToolError("Gen simulation produced nothing:\n" + out[-2000:])
        stats["sim_behaviours"] += n
        m = re.search(r"The number of states generated: (\d+)", out)
        if m:
            stats["mc_states"] += int(m.group(1))
            ctx.states += int(m.group(1))
            ctx.transitions += int(m.group(1))
    if fuel_mc is not None:
        rc, out, wall = common.tlc("Gen", cfg % (fuel_mc, fl, "") + "CONSTRAINT Bounded\n", ctx.dir, "gen-mc", workers=8,
                                   timeout=mc_timeout, heap="8g")
        if "Model checking completed" not in out:
            raise ToolError("Gen enumeration did not complete:\n" + out[-2000:])
        harvest(out)
        st = common.parse_tlc_stats(out)
        stats["mc_states"], stats["mc_distinct"] = st["states"], st["distinct"]
        ctx.states += st["distinct"]
        ctx.transitions += st["states"]
    return progs, stats


def run_gen_prop(ctx):
    q = ctx.quick()
    fault = ctx.prop == "C14"
    progs, stats = gen_programs(ctx, fault, sim_n=((30000 if fault else 8000) if q else 300000),
                                fuel_sim=[4, 6, 10, 16] if q else [4, 6, 10, 16, 24],
                                fuel_mc=None)
    seen = set()
    for j in progs:
        src = "".join(j["src"])
        key = (src, j["fault"]["kind"], j["fault"]["o"])
        if key in seen:
            continue
        if fault and j["fault"]["kind"] in ("", "void"):
            continue
        seen.add(key)
        cid = "g%d" % len(ctx.cases)
        ctx.cases[cid] = {"id": cid, "src": src, "exps": j["exps"], "fault": j["fault"], "fam": "gen"}
        # the same derivation with its insignificant single blanks replaced by other White_Space characters (same length
        # in code points, so the expectations stay where they are); every sixth program
        if not fault and len(ctx.cases) % 6 == 0:
            chars = list(src)
            hit = False
            for e in j["exps"]:
                if e["k"] == "ws" and e["ty"] == " " and e["n"] == 1 and e["o"] < len(chars) and chars[e["o"]] == " ":
                    chars[e["o"]] = ctx.rng.choice(UNI_WS)
                    hit = True
            if hit:
                cid = "g%d" % len(ctx.cases)
                ctx.cases[cid] = {"id": cid, "src": "".join(chars), "exps": j["exps"], "fault": j["fault"], "fam": "gen-unicode-ws"}
    ctx.families["gen"] = len(ctx.cases)
    ctx.extra["generator"] = stats
    if fault:
        import collections
        ctx.extra["fault_kinds"] = dict(collections.Counter(c["fault"]["kind"] for c in ctx.cases.values()))
    if len(ctx.cases) < 100 and ctx.replay_case is None:
        raise ToolError("vacuous: generator produced only %d distinct programs" % len(ctx.cases))
    pick_samples(ctx)
    cases = list(ctx.cases.values())
    for variant in ("dbg", "rel"):
        paths = run_variant(ctx, variant, cases, events=False)
        mon = common.monitor(ctx.prop, paths, ctx.dir, workers_each=2, parallel=8)
        judge(ctx, variant, mon)
        log("[%s] %s: %d records monitored in %.1fs, %d verdict lines" % (
            ctx.prop, variant, mon["records"], mon["wall"], len(mon["verdicts"])))
        if variant == "dbg":
            self_test(ctx, variant, paths)
            model_leg(ctx, paths, "M" + ctx.prop[1:])
    rule = ("programs are derivations of the construct grammar spec/Gen.tla (DESIGN.md 7.6), produced by TLC: random "
            "derivations (-simulate, several fuel bounds) and all derivations with a small fuel bound; each carries the "
            "generator's expectations%s; the real lexer runs on each and TLC evaluates the %s clauses of "
            "spec/GenProps.tla" % (" and one deletion fault" if fault else "", ctx.prop))
    return finish(ctx, "model_checking", rule,
                  ["the grammar is deliberately conservative (DESIGN.md 7.6 and section 12)",
                   "position tables come from the harness and are re-derived by CertOK"])


def model_leg(ctx, paths, mprop):
    """Design level: the same clauses evaluated by TLC on the operational model's own result for the text of every
    record (spec/TraceConf.tla ModelRec), plus agreement of the final results of model and implementation (MSAME).
    A failure here is a statement about the model (or drift), never a verdict about the code: it is recorded in
    the evidence and printed, and does not change the exit code."""
    if ctx.replay_case is not None:
        return
    out = {}
    for prop in (mprop, "MSAME"):
        mon = common.monitor(prop, paths, ctx.dir, workers_each=2, parallel=8)
        ctx.states += mon["states"]
        ctx.transitions += mon["transitions"]
        byc = {}
        for cid, clause, cnt, wit in mon["verdicts"]:
            byc.setdefault(clause, []).append(cid)
        out[prop] = {"records": mon["records"], "skipped": len(mon["skipped"]),
                     "failing_clauses": {k: {"count": len(v), "first": [ctx.cases[c]["src"][:120] for c in v[:3] if c in ctx.cases]}
                                         for k, v in byc.items()}}
        log("[%s] model leg %s: %d records, %s" % (ctx.prop, prop, mon["records"],
            "all clauses hold on the model" if not byc else "MODEL-LEVEL failures (drift, not a verdict): %s" % {k: len(v) for k, v in byc.items()}))
    ctx.extra["design_level_on_model"] = out


def binding_leg(ctx, paths):
    """What carries the design-level results over to the code: step-by-step conformance (spec/TraceConf.tla CONF_drift)
    of the very executions this check judged (debug-assertion build, events recorded).  Drift is recorded and printed,
    never a verdict."""
    if ctx.replay_case is not None:
        return
    try:
        mon = common.monitor("CONF", paths, ctx.dir, workers_each=2, parallel=8)
    except ToolError as e:
        # the conformance operators follow the recorded states; a recorded state outside the text (possible only when
        # the code is wrong) can make them undefined.  That is drift of the worst kind, not a tool failure of the check.
        ctx.extra["conformance_of_these_executions"] = {"status": "not evaluable on these records", "detail": str(e)[:300]}
        log("[%s] conformance of these executions with the model: NOT EVALUABLE (recorded states outside the text?)" % ctx.prop)
        return
    ctx.states += mon["states"]
    ctx.transitions += mon["transitions"]
    drift = sorted({cid for cid, clause, cnt, wit in mon["verdicts"]})
    ctx.extra["conformance_of_these_executions"] = {
        "records": mon["records"], "skipped": len(mon["skipped"]), "drifting": len(drift),
        "first": [ctx.cases[c]["src"][:120] for c in drift[:3] if c in ctx.cases]}
    log("[%s] conformance of these executions with the model: %d records, %d drifting" % (ctx.prop, mon["records"], len(drift)))


def run_conf(ctx):
    """Conformance of the real lexer with the operational model (drift report; never a verdict)."""
    q = ctx.quick()
    base_inputs(ctx, soup_n=4000 if q else 60000, trunc_n=300 if q else 3000, mb_n=200 if q else 2000, gen_n=2000 if q else 20000,
                cover_n=600 if q else 40000)
    ctx.add_cases("string_family", gen.string_family(ctx.rng, 2500 if q else 40000))
    ctx.add_cases("num_family", gen.num_family(ctx.rng, 1500 if q else 20000, exhaustive_len=2))
    ctx.add_cases("sep_family", gen.sep_family(ctx.rng, 1000 if q else 10000))
    cases = list(ctx.cases.values())
    steps = 0
    drift = []
    for variant, sep in (("dbg", True), ("nosep", False)):
        paths = run_variant(ctx, variant, cases, events=True)
        for pth in paths:
            for rec in common.read_ndjson(pth):
                steps += len(rec.get("events", []))
        mon = common.monitor("CONF", paths, ctx.dir, workers_each=2, parallel=8, macro_sep=sep)
        ctx.states += mon["states"]
        ctx.transitions += mon["transitions"]
        ctx.traces += mon["records"]
        for cid, clause, count, witness in mon["verdicts"]:
            drift.append((variant, cid, count, witness))
        log("[CONF] %s: %d records, %.1fs, %d drifting cases" % (variant, mon["records"], mon["wall"], len(mon["verdicts"])))
    import collections
    sig = collections.Counter()
    ex = {}
    for variant, cid, count, w in drift:
        key = (w[1], w[2], w[3])
        sig[key] += 1
        src = ctx.cases[cid]["src"]
        if key not in ex or len(src) < len(ex[key]):
            ex[key] = src
    for key, n in sig.most_common(40):
        print("DRIFT %4d %s %r" % (n, key, ex[key][:100]), flush=True)
    ctx.extra["steps_total"] = steps
    ctx.extra["drifting_cases"] = len(drift)
    ctx.extra["drift_signatures"] = [{"phase": k[0], "mode": k[1], "field": k[2], "cases": n, "example": ex[k][:200]}
                                     for k, n in sig.most_common(50)]
    return finish(ctx, "model_checking", "conformance of recorded steps with spec/SasLexer.tla", [])


# ----------------------------------------------------------------------------- C20 (Python binding)

def run_c20(ctx):
    import subprocess
    import tempfile
    q = ctx.quick()
    pyrun = os.path.join(common.VERIF, "pyharness", "pyrun.py")
    # a fixed path: the binding's build script bakes its manifest directory in at compile time, and cargo
    # would re-run a stale build-script binary (pointing at a deleted copy) if the path changed between runs
    scratch = "/tmp/verif-c20-scratch" + ("-alt" if common.ALT_REPO else "")
    shutil.rmtree(scratch, ignore_errors=True)
    os.makedirs(scratch)
    try:
        for item in ("Cargo.toml", "Cargo.lock", "crates", "src", "pyproject.toml"):
            srcp = os.path.join(common.REPO, item)
            dst = os.path.join(scratch, item)
            if os.path.isdir(srcp):
                shutil.copytree(srcp, dst, ignore=shutil.ignore_patterns("target"))
            else:
                shutil.copy(srcp, dst)
        for fn in ("crates/sas-lexer-py/build.rs", "crates/sas-lexer-py/src/lib.rs"):
            os.utime(os.path.join(scratch, fn), None)
        t0 = time.time()
        p = subprocess.run([sys_python(), pyrun, "build", scratch, os.path.join(common.WORK, "target-py")],
                           stdout=subprocess.PIPE, stderr=subprocess.STDOUT, text=True)
        try:
            b = json.loads(p.stdout.strip().splitlines()[-1])
        except Exception:
            raise ToolError("pyrun build gave no result: " + p.stdout[-1000:])
        if not b.get("ok"):
            raise ToolError("building the Python extension failed:\n" + b.get("log", ""))
        log("[build] python extension ok (%.1fs)" % (time.time() - t0))
        # C20_generated: the build script has rewritten the enum modules of the scratch copy
        gen_diff = []
        for fn in ("token_type.py", "token_channel.py", "error_kind.py"):
            a = open(os.path.join(common.REPO, "src/sas_lexer", fn), "rb").read()
            g = open(os.path.join(scratch, "src/sas_lexer", fn), "rb").read()
            if a != g:
                gen_diff.append(fn)
        ctx.extra["generated_enum_modules_identical"] = not gen_diff
        # inputs
        must = [s for _, s in gen.corpus() if _.startswith("sample:")]
        progs, stats = gen_programs(ctx, False, sim_n=2500 if q else 40000, fuel_sim=[6, 12])
        must += ["".join(j["src"]) for j in progs]
        # well-formed programs with text outside ASCII: a comment in front, comments inside, a BOM
        nonascii = []
        for k, pr in enumerate(must):
            if k % 3 == 0:
                nonascii.append("/* Gr\u00f6\u00dfe \U0001F525 */\n" + pr)
            elif k % 3 == 1 and "/*c*/" in pr:
                nonascii.append(pr.replace("/*c*/", "/*\u00e7\u4e2d*/"))
            elif k % 7 == 2:
                nonascii.append("\ufeff" + pr)
        must += nonascii
        ctx.add_cases("wellformed", must)
        nmust = len(ctx.cases)
        base_inputs(ctx, soup_n=2500 if q else 40000, mb_n=400 if q else 4000, lf_n=200 if q else 2000, cover_n=400 if q else 20000)
        ctx.add_cases("string_family", gen.string_family(ctx.rng, 1500 if q else 30000))
        pick_samples(ctx)
        cases = list(ctx.cases.values())
        must_ids = {c["id"] for c in cases if c["fam"] == "wellformed"}
        # texts that exist only as Python str objects (lone surrogates, e.g. files read with surrogateescape):
        # the native harness cannot express them; the Python side is judged alone, whenever it returns
        sur = []
        pool_s = [c["src"] for c in cases if 0 < len(c["src"]) < 200]
        for k in range(300 if q else 5000):
            s0 = ctx.rng.choice(pool_s)
            i0 = ctx.rng.randint(0, len(s0))
            sur.append({"id": "sur-%d" % k, "src": s0[:i0] + ctx.rng.choice(["\udce9", "\ud800", "\udfff\udc80"]) + s0[i0:],
                        "pyonly": True, "fam": "surrogate"})
        # native view of the published crate
        env = dict(os.environ)
        env["CARGO_TARGET_DIR"] = os.path.join(common.WORK, "target-reg")
        env.pop("RUSTFLAGS", None)
        pb = subprocess.run(["cargo", "build", "--offline", "--release", "--quiet"], cwd=os.path.join(common.VERIF, "harness-reg"),
                            env=env, stdout=subprocess.PIPE, stderr=subprocess.STDOUT, text=True)
        if pb.returncode != 0:
            raise ToolError("lexrun-reg build failed: " + pb.stdout[-1500:])
        regbin = os.path.join(common.WORK, "target-reg", "release", "lexrun")
        native, pyview = {}, {}
        for ci in range(0, len(cases), 3000):
            chunk = cases[ci:ci + 3000]
            cin = os.path.join(ctx.dir, "c20-in-%d.ndjson" % ci)
            common.write_cases(cin, chunk)
            o1 = os.path.join(ctx.dir, "c20-native-%d.ndjson" % ci)
            run_child_chunk(lambda i_, o_: [regbin, "--in", i_, "--out", o_], chunk, cin, o1)
            for rec in common.read_ndjson(o1):
                native[rec["id"]] = rec
            o2 = os.path.join(ctx.dir, "c20-py-%d.ndjson" % ci)
            run_child_chunk(lambda i_, o_: [sys_python(), pyrun, "run", b["pkg"], os.path.join(common.REPO, "src/sas_lexer"), i_, o_],
                            chunk, cin, o2)
            for rec in common.read_ndjson(o2):
                pyview[rec["id"]] = rec
            for f_ in (cin, o1, o2):
                if os.path.exists(f_):
                    os.remove(f_)
            ctx.evals += len(chunk)
        # surrogate family: Python side only (JSON escapes keep the lone surrogates)
        sin, sout = os.path.join(ctx.dir, "c20-sur-in.ndjson"), os.path.join(ctx.dir, "c20-sur-out.ndjson")
        with open(sin, "w", encoding="ascii") as f_:
            for c in sur:
                f_.write(json.dumps(c, ensure_ascii=True) + "\n")
        run_child_chunk(lambda i_, o_: [sys_python(), pyrun, "run", b["pkg"], os.path.join(common.REPO, "src/sas_lexer"), i_, o_],
                        sur, sin, sout)
        surview = {rec["id"]: rec for rec in common.read_ndjson(sout)} if os.path.exists(sout) else {}
        ctx.extra["surrogate_inputs"] = len(sur)
        ctx.extra["surrogate_inputs_returned"] = sum(1 for r in surview.values() if r.get("ok"))
        for c in sur:
            ctx.cases[c["id"]] = {"id": c["id"], "src": c["src"].encode("utf-8", "surrogatepass").decode("utf-8", "replace"), "fam": "surrogate"}
        returned = sum(1 for r in pyview.values() if r["ok"])
        ctx.extra["python_calls_returned"] = returned
        ctx.extra["python_calls_raised"] = len(pyview) - returned
        ctx.extra["wellformed_programs"] = nmust
        crashed = [c for c in cases if "cw" not in native.get(c["id"], {})]
        ctx.extra["linked_crate_did_not_return_natively"] = len(crashed)
        known = common.load_known()
        for c in crashed:
            if c["id"] in must_ids:
                hit = None
                for f in known.get("findings", []):
                    if common.finding_matches(f, "C20", "C20_returns", c):
                        hit = f
                        break
                if hit is not None:
                    ctx.known_hits.append((hit, "C20_returns", c["id"]))
                else:
                    ctx.violations.append(("C20_returns", c["id"], "the linked lexer crate did not return on a well-formed program", "py"))
        def all_pairs():
            for c in cases:
                if c["id"] in native and c["id"] in pyview and "cw" in native[c["id"]]:
                    yield {"id": c["id"], "must_return": c["id"] in must_ids, "native": True, "a": native[c["id"]], "b": pyview[c["id"]]}
            for c in sur:
                r_ = surview.get(c["id"])
                if r_ and r_.get("ok") and "tbl" in r_:
                    tbl = r_.pop("tbl")
                    yield {"id": c["id"], "must_return": False, "native": False, "a": tbl, "b": r_}
        paths = write_pairs(ctx, "py", all_pairs())

        def wtext(cid, clause, witness):
            rec = native.get(cid, {})
            if isinstance(witness, int) and 1 <= witness <= len(rec.get("rtoks", [])):
                t = rec["rtoks"][witness - 1]
                return "".join(rec["cs"][t["c"]:t["ec"]])
            return None

        judge_pairs(ctx, "py", paths, wtext)
        if gen_diff:
            ctx.cases["generated"] = {"id": "generated", "src": "", "files": gen_diff}
            ctx.violations.append(("C20_generated", "generated", "enum modules rewritten by the build script differ from the "
                                   "committed ones: %s" % ", ".join(gen_diff), "py"))
    finally:
        shutil.rmtree(scratch, ignore_errors=True)
    return finish(ctx, "exploration",
                  "the extension module is built from a scratch copy of the workspace (its build script rewrites the Python "
                  "enum modules there; they are compared byte for byte with the committed ones), loaded by the system "
                  "python3 and called on well-formed programs (construct grammar, sample files), corpus, soup, "
                  "multi-byte/LF injections and the string family; the msgpack payload is decoded positionally into the "
                  "fields declared in token.py/error.py; TLC evaluates the C20 clauses of spec/PyBind.tla on the pair "
                  "(native view of the linked published crate, Python view)",
                  ["the extension links the published sas-lexer 1.0.0-beta.3 from the offline registry, not the workspace "
                   "crate; absolute clauses therefore judge that crate, fidelity clauses judge the binding",
                   "a panic inside the linked crate on an arbitrary string is outside the property (counted, not reported)",
                   "C20_generated is a file comparison, not model-based"])


def sys_python():
    return "/usr/bin/python3" if os.path.exists("/usr/bin/python3") else "python3"


def _limit_mem():
    import resource
    resource.setrlimit(resource.RLIMIT_AS, (6 << 30, 6 << 30))


def run_child_chunk(cmd, chunk, cin, out):
    """Runs a child process on a case file.  A crash, hang or runaway allocation of the child (the linked
    published crate can loop without bound) is isolated: the chunk is split into 32 parts run in parallel,
    failing parts are run case by case; a case on which the child does not return is recorded as such."""
    import subprocess
    import concurrent.futures as cf

    def attempt(cases, cin_, out_, timeout):
        common.write_cases(cin_, cases)
        try:
            r = subprocess.run(cmd(cin_, out_), stdout=subprocess.PIPE, stderr=subprocess.STDOUT, text=True,
                               timeout=timeout, preexec_fn=_limit_mem)
            return r.returncode == 0
        except subprocess.TimeoutExpired:
            return False

    if attempt(chunk, cin, out, 30 + len(chunk) // 50):
        return
    results = {}

    def part(k_cases):
        k, cases = k_cases
        pin, pout = "%s.p%d" % (cin, k), "%s.p%d" % (out, k)
        recs = []
        if attempt(cases, pin, pout, 8):
            recs = list(common.read_ndjson(pout))
        else:
            for n, c in enumerate(cases):
                sin, sout = "%s.%d" % (pin, n), "%s.%d" % (pout, n)
                if attempt([c], sin, sout, 3):
                    recs.extend(common.read_ndjson(sout))
                else:
                    recs.append({"id": c["id"], "ok": False, "panic": "child process crashed, hung or ran out of memory",
                                 "budget_exceeded": False, "events": [], "cs": list(c["src"]), "cc": []})
                for f_ in (sin, sout):
                    if os.path.exists(f_):
                        os.remove(f_)
        for f_ in (pin, pout):
            if os.path.exists(f_):
                os.remove(f_)
        return recs

    nparts = 32
    parts = [(k, chunk[k::nparts]) for k in range(nparts) if chunk[k::nparts]]
    with cf.ThreadPoolExecutor(max_workers=16) as ex:
        for recs in ex.map(part, parts):
            for rec in recs:
                results[rec["id"]] = rec
    with open(out, "w", encoding="utf-8") as f:
        for c in chunk:
            if c["id"] in results:
                f.write(json.dumps(results[c["id"]], ensure_ascii=False) + "\n")


RUNNERS = {"C20": run_c20, "CONF": run_conf, "C12": run_gen_prop, "C13": run_gen_prop, "C14": run_gen_prop, "C15": run_c15, "C16": run_c16, "C17": run_c17, "C18": run_c18, "C19": run_c19}


def run(prop, tier, seed, replay=None, keep=False):
    ctx = Ctx(prop, tier, seed, keep=keep)
    if replay:
        with open(replay, encoding="utf-8") as f:
            ctx.replay_case = json.load(f)["case"]
    if prop in GENERIC:
        return run_generic(ctx)
    if prop in RUNNERS:
        return RUNNERS[prop](ctx)
    raise ToolError("no check registered for %s" % prop)
