------------------------------- MODULE PyBind -------------------------------
(***************************************************************************)
(* C20: the Python binding.  A case is a pair: a = the native view of the  *)
(* lexer crate the extension links (bulk resolved tokens, errors, literal  *)
(* buffer), b = what Python code sees after decoding the msgpack payload   *)
(* positionally into the fields declared by token.py / error.py.           *)
(***************************************************************************)
EXTENDS GenProps

NTb(p) == Len(p.b.toks)

C20_decode(p) == IF p.b.decode_error = "" THEN {} ELSE {p.b.decode_error}

\* fidelity: the Python-side view equals the native view, field by field
C20_fidelity_toks(p) ==
  (IF NTb(p) = Len(p.a.rtoks) THEN {} ELSE {0}) \cup
  {i \in 1..Min(NTb(p), Len(p.a.rtoks)) : LET x == p.a.rtoks[i]  y == p.b.toks[i] IN
     ~( /\ y.tn = x.tn /\ y.chn = x.chn /\ y.i = x.i
        /\ y.c = x.c /\ y.ec = x.ec /\ y.l = x.l /\ y.col = x.col /\ y.el = x.el /\ y.ecol = x.ecol
        /\ y.pk = x.pk /\ y.pv = x.pv )}
C20_fidelity_errs(p) ==
  (IF Len(p.b.errs) = Len(p.a.errs) THEN {} ELSE {0}) \cup
  {i \in 1..Min(Len(p.b.errs), Len(p.a.errs)) : LET x == p.a.errs[i]  y == p.b.errs[i] IN
     ~(y.code = x.code /\ y.b = x.b /\ y.c = x.c /\ y.l = x.l /\ y.col = x.col /\ y.lt = x.lt)}
C20_fidelity_lit(p) == IF p.b.lit = p.a.lit /\ p.b.litlen = p.a.litlen THEN {} ELSE {p.b.litlen}

\* every enum value is a member of the shipped Python enums
C20_enum(p) ==
  {i \in 1..NTb(p) : ~(p.b.toks[i].tt_member /\ p.b.toks[i].ch_member)} \cup
  {0 - i : i \in {i \in 1..Len(p.b.errs) : ~p.b.errs[i].ek_member}}

\* source[token.start:token.stop] tiles the source (code points)
C20_tile(p) ==
  LET ts == p.b.toks  n == NTb(p) IN
  (IF n >= 1 /\ ts[1].c = p.a.bom /\ ts[n].c = N(p.a) /\ ts[n].ec = N(p.a) THEN {} ELSE {0}) \cup
  {i \in 1..n : ts[i].ec < ts[i].c \/ ts[i].i # i - 1 \/ (i < n /\ ts[i].ec # ts[i+1].c)}

\* line / column / end_line / end_column match the text (DESIGN.md 7.1)
C20_pos(p) ==
  LET r == p.a IN
  {i \in 1..NTb(p) : LET t == p.b.toks[i] IN
     (PosOK(r, t.c) /\ PosOK(r, t.ec) /\ t.ec >= t.c) =>
        ~( /\ t.l = LineOf(r, t.c) /\ t.col = ColOf(r, t.c)
           /\ t.el = ExpEndLine(r, t) /\ t.ecol = ExpEndCol(r, t) )}
C20_err_pos(p) ==
  LET r == p.a IN
  {i \in 1..Len(p.b.errs) : LET e == p.b.errs[i] IN
     ~(PosOK(r, e.c) /\ (p.native => ValidPos(r, e.b, e.c)) /\ e.l = LineOf(r, e.c) /\ e.col = ColOf(r, e.c)
       /\ (e.lt = 0 - 1 \/ (e.lt >= 0 /\ e.lt < NTb(p))))}

\* string payload ranges slice the returned literal buffer (on character boundaries) ...
C20_payload_range(p) == {i \in 1..NTb(p) : p.b.toks[i].pk = "s" /\ ~p.b.toks[i].ptok}
\* ... to the unquoted text of the token (quoted literals and string-expression text)
PseudoRec(p) ==
  [cs |-> p.a.cs, cc |-> p.a.cc, errs |-> p.a.errs, events |-> <<>>,
   toks |-> [i \in 1..NTb(p) |-> [ty |-> p.a.rtoks[i].ty, c |-> p.b.toks[i].c, ec |-> p.b.toks[i].ec,
                                   i |-> i - 1, pk |-> p.b.toks[i].pk]]]
C20_payload_value(p) ==
  IF NTb(p) # Len(p.a.rtoks) THEN {} ELSE
  LET r == PseudoRec(p) IN
  {i \in 1..NTb(p) :
     /\ r.toks[i].ty \in StrLitTypes \cup {"StringExprText"}
     /\ r.toks[i].ec <= N(p.a) /\ r.toks[i].c < r.toks[i].ec
     /\ LET e == Expected(r, i)  t == p.b.toks[i] IN
          \/ (t.pk = "s") # e.present
          \/ (t.pk = "s" /\ ~e.byCode /\ t.pt # e.chars)}

\* on well-formed programs the binding always returns
C20_returns(p) == IF p.must_return /\ ~p.b.ok THEN {p.b.panic} ELSE {}
=============================================================================
