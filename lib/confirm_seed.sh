#!/bin/sh
# usage: confirm_seed.sh <id> : re-verifies an agent's seeded change in its scratch worktree /tmp/mut/<id>
# (tests pass with the change; demo fails with it and passes without), then stores it under /verif/seeded/<id>/
id="$1"; wt=/tmp/mut/$id; out=$wt/OUT
cd $wt || exit 2
export CARGO_TARGET_DIR=$wt/target CARGO_NET_OFFLINE=true
demo=$(ls crates/sas-lexer/tests/*.rs 2>/dev/null | head -1)
[ -z "$demo" ] && { echo "$id: no demo test file"; exit 2; }
dn=$(basename $demo .rs)
git checkout -q -- crates 2>/dev/null
git apply $out/patch.diff || { echo "$id: patch does not apply"; exit 2; }
mv $demo /tmp/mut/$id.demo.rs.tmp
suite=$(cargo test --workspace --offline 2>&1 | grep -E "^test result" | head -1)
mv /tmp/mut/$id.demo.rs.tmp $demo
with=$(cargo test --offline -p sas-lexer --test $dn 2>&1 | grep -E "^test result" | head -1)
git apply -R $out/patch.diff
without=$(cargo test --offline -p sas-lexer --test $dn 2>&1 | grep -E "^test result" | head -1)
echo "$id suite-with-patch: $suite"
echo "$id demo-with-patch:  $with"
echo "$id demo-without:     $without"
sd=${2:-$id}; mkdir -p /verif/seeded/$sd
cp $out/patch.diff /verif/seeded/$sd/patch.diff
cp $demo /verif/seeded/$sd/demo.rs
[ -f $out/demo.md ] && cp $out/demo.md /verif/seeded/$sd/demo.md
python3 - "$id" "$suite" "$with" "$without" "$sd" <<'PY'
import json,sys
id,suite,w,wo=sys.argv[1:5]
try: m=json.load(open('/tmp/mut/%s/OUT/meta.json'%id))
except Exception: m={}
m['property']=id
m['confirmed']={'suite_with_patch':suite,'demo_with_patch':w,'demo_without_patch':wo,
  'how':'in scratch worktree /tmp/mut/%s: git apply patch; cargo test --workspace --offline; cargo test --test <demo>; git apply -R; cargo test --test <demo>'%id}
json.dump(m,open('/verif/seeded/%s/meta.json'%(sys.argv[5] if len(sys.argv)>5 else id),'w'),indent=1,ensure_ascii=False)
PY
