------------------------------- MODULE Props -------------------------------
(***************************************************************************)
(* The listed properties as predicates over a *case record*: the source    *)
(* text (as classified characters with position tables) and everything     *)
(* that was observed when the real lexer ran on it (final result through   *)
(* the public API, bulk view, errors, per-iteration events).               *)
(*                                                                         *)
(* Every clause is written as the set (or sequence) of its *witnesses of   *)
(* failure*: the clause holds iff the set is empty.  A verdict is only     *)
(* ever based on these definitions (DESIGN.md section 6).                  *)
(*                                                                         *)
(* Positions: position p in 0..N is "before character p+1"; the tables     *)
(* cb/cl/cco are indexed by p+1 (DESIGN.md 7.1).                           *)
(***************************************************************************)
EXTENDS Chars, TLC

N(r) == Len(r.cs)

\* ---------------------------------------------------------------------
\* The position tables that come with a case are re-derived here from the
\* characters and their UTF-8 widths; a record that fails this is a tool
\* error, never a verdict.
CertOK(r) ==
  /\ Len(r.cw) = N(r) /\ Len(r.cc) = N(r)
  /\ Len(r.cb) = N(r) + 1 /\ Len(r.cl) = N(r) + 1 /\ Len(r.cco) = N(r) + 1
  /\ r.cb[1] = 0 /\ r.cl[1] = 1
  /\ r.bom = (IF N(r) > 0 /\ r.cc[1] = 8 THEN 1 ELSE 0)
  /\ r.cco[1] = (IF r.bom = 1 THEN 0 - 1 ELSE 0)
  /\ \A i \in 1..N(r) :
       /\ r.cw[i] \in 1..4
       /\ (r.cw[i] > 1 => r.cc[i] # 0)
       /\ r.cb[i+1] = r.cb[i] + r.cw[i]
       /\ r.cl[i+1] = r.cl[i] + (IF r.cs[i] = LF THEN 1 ELSE 0)
       /\ r.cco[i+1] = (IF r.cs[i] = LF THEN 0 ELSE r.cco[i] + 1)
  /\ r.cb[N(r)+1] = r.len
  /\ r.nchars = N(r)

\* (byte, char) is a position of the text
ValidPos(r, b, c) == c \in 0..N(r) /\ r.cb[c+1] = b
LineOf(r, p) == r.cl[p+1]
ColOf(r, p)  == r.cco[p+1]

NT(r) == Len(r.toks)
TokText(r, t) == SubSeq(r.cs, t.c + 1, t.ec)
TokCls(r, t)  == SubSeq(r.cc, t.c + 1, t.ec)
IsEmptyTok(t) == t.eb = t.b

\* =====================================================================
\* C01  totality
\* =====================================================================
C01_returns(r) == IF r.ok /\ r.panic = "" THEN {} ELSE {r.panic}
C01_budget(r)  == IF r.ok /\ r.budget_exceeded THEN {r.iters} ELSE {}
C01_no_internal(r) ==
  {i \in 1..Len(r.errs) : r.errs[i].code >= 9000 /\ r.errs[i].code <= 9999}
\* output and work linear in the input (constants: DESIGN.md section 8, C01)
C01_linear(r) ==
  (IF r.ntoks > 4 * r.nchars + 16 THEN {<<"tokens", r.ntoks>>} ELSE {}) \cup
  (IF Len(r.errs) > 4 * r.nchars + 16 THEN {<<"errors", Len(r.errs)>>} ELSE {}) \cup
  (IF r.iters > 16 * r.nchars + 64 THEN {<<"iterations", r.iters>>} ELSE {}) \cup
  (IF r.max_stack > 40 * r.nchars + 40 THEN {<<"stack", r.max_stack>>} ELSE {})
\* no main-loop iteration leaves (cursor, mode stack) unchanged: the debug
\* build's own criterion, applied to every build
C01_progress(r) ==
  LET ev == r.events IN
  {i \in 1..Len(ev) :
     /\ ev[i].ph = "L"
     /\ ev[i].ba = ev[i].bb
     /\ IF i = 1
          THEN Len(ev[i].cfg.modes) = 1 /\ ev[i].cfg.modes[1].k = "Default"
          ELSE ev[i-1].ph = "L" /\ ev[i].cfg.modes = ev[i-1].cfg.modes}
\* checkpoint discipline: the internal faults are observable as operations
C01_ckpt_ops(r) ==
  LET ev == r.events IN
  {i \in 1..Len(ev) : \E j \in 1..Len(ev[i].ops) : ev[i].ops[j] \in {"RM", "CL"}}

\* =====================================================================
\* C02  tiling, single EOF
\* =====================================================================
C02_first(r) == IF NT(r) >= 1 /\ r.toks[1].b = 3 * r.bom THEN {} ELSE {0}
C02_tiles(r) ==
  {i \in 1..NT(r)-1 : r.toks[i].eb # r.toks[i+1].b \/ r.toks[i].ec # r.toks[i+1].c}
C02_monotone(r) ==
  {i \in 1..NT(r) : r.toks[i].eb < r.toks[i].b
                    \/ (i < NT(r) /\ r.toks[i+1].b < r.toks[i].b)}
C02_eof(r) ==
  {i \in 1..NT(r) : (r.toks[i].ty = "EOF") # (i = NT(r))} \cup
  (IF NT(r) >= 1 /\ r.toks[NT(r)].b = r.len /\ r.toks[NT(r)].eb = r.len
        /\ r.toks[NT(r)].c = N(r)
     THEN {} ELSE {NT(r)})
C02_boundary(r) ==
  {i \in 1..NT(r) : ~ValidPos(r, r.toks[i].b, r.toks[i].c)
                    \/ ~ValidPos(r, r.toks[i].eb, r.toks[i].ec)}
C02_accessors(r) ==
  (IF r.acc_fail = 0 THEN {} ELSE {<<"accessor errors", r.acc_fail>>}) \cup
  (IF r.concat_ok THEN {} ELSE {<<"concatenation differs">>}) \cup
  (IF r.ntoks = NT(r) THEN {} ELSE {<<"token_count", r.ntoks>>})
\* per step: nothing emitted lies beyond the cursor, emitted starts are ordered
C02_step(r) ==
  LET ev == r.events IN
  {i \in 1..Len(ev) :
     \E j \in 1..Len(ev[i].tt) :
        \/ ev[i].tt[j].b > ev[i].ba
        \/ (j > 1 /\ ev[i].tt[j].b < ev[i].tt[j-1].b)}

\* =====================================================================
\* C03  character offsets
\* =====================================================================
C03_tok(r) == {i \in 1..NT(r) : ~ValidPos(r, r.toks[i].b, r.toks[i].c)}
C03_err(r) == {i \in 1..Len(r.errs) : ~ValidPos(r, r.errs[i].b, r.errs[i].c)}
C03_cursor(r) ==
  LET ev == r.events IN {i \in 1..Len(ev) : ~ValidPos(r, ev[i].ba, ev[i].ca)}
C03_step_tok(r) ==
  LET ev == r.events IN
  {i \in 1..Len(ev) : \E j \in 1..Len(ev[i].tt) :
                         ~ValidPos(r, ev[i].tt[j].b, ev[i].tt[j].c)}

\* =====================================================================
\* C04  lines and columns (end convention: DESIGN.md 7.1)
\* =====================================================================
PosOK(r, c) == c \in 0..N(r)
C04_start(r) ==
  {i \in 1..NT(r) : LET t == r.toks[i] IN
     PosOK(r, t.c) => (t.l # LineOf(r, t.c) \/ t.col # ColOf(r, t.c))}
ExpEndLine(r, t) == IF t.ec = t.c THEN LineOf(r, t.c) ELSE LineOf(r, t.ec - 1)
ExpEndCol(r, t)  == IF t.ec = t.c THEN ColOf(r, t.c) ELSE ColOf(r, t.ec - 1) + 1
C04_end(r) ==
  {i \in 1..NT(r) : LET t == r.toks[i] IN
     (PosOK(r, t.c) /\ PosOK(r, t.ec) /\ t.ec >= t.c) =>
        (t.el # ExpEndLine(r, t) \/ t.ecol # ExpEndCol(r, t))}
C04_count(r) == IF r.nlines = LineOf(r, N(r)) THEN {} ELSE {r.nlines}
C04_err(r) ==
  {i \in 1..Len(r.errs) : LET e == r.errs[i] IN
     PosOK(r, e.c) => (e.l # LineOf(r, e.c) \/ e.col # ColOf(r, e.c))}
\* the line table itself: line 1 starts after the BOM, line n+1 after the n-th LF
C04_table_len(r) == IF Len(r.lstarts) = r.nlines THEN {} ELSE {Len(r.lstarts)}
C04_table(r) ==
  LET ls == r.lstarts IN
  {i \in 1..Len(ls) :
     \/ ~ValidPos(r, ls[i][1], ls[i][2])
     \/ (i = 1 /\ ls[i][2] # r.bom)
     \/ (i > 1 /\ (ls[i][2] = 0 \/ r.cs[ls[i][2]] # LF))
     \/ (PosOK(r, ls[i][2]) /\ LineOf(r, ls[i][2]) # i)}
\* per step: the number of lines recorded equals the number of the cursor's line
C04_step(r) ==
  LET ev == r.events IN
  {i \in 1..Len(ev) : PosOK(r, ev[i].ca) /\ ev[i].la # LineOf(r, ev[i].ca)}

\* =====================================================================
\* C05  bulk view = accessors
\* =====================================================================
C05_len(r) == IF Len(r.rtoks) = NT(r) THEN {} ELSE {Len(r.rtoks)}
C05_views(r) ==
  {i \in 1..(IF Len(r.rtoks) < NT(r) THEN Len(r.rtoks) ELSE NT(r)) :
     LET a == r.toks[i]  b == r.rtoks[i] IN
       ~( /\ b.i = i - 1 /\ a.i = i - 1
          /\ a.ty = b.ty /\ a.ch = b.ch
          /\ a.c = b.c /\ a.ec = b.ec
          /\ a.l = b.l /\ a.col = b.col
          /\ a.el = b.el /\ a.ecol = b.ecol
          /\ a.pk = b.pk /\ a.pv = b.pv )}

\* =====================================================================
\* C09  errors anchored in the final token stream
\* =====================================================================
C09_bounds(r) ==
  {i \in 1..Len(r.errs) : ~ValidPos(r, r.errs[i].b, r.errs[i].c)}
C09_last_token(r) ==
  {i \in 1..Len(r.errs) : LET e == r.errs[i] IN
     ~( e.lt = 0 - 1 \/ (e.lt >= 0 /\ e.lt < NT(r) /\ r.toks[e.lt + 1].b <= e.b) )}
C09_order(r) ==
  {i \in 2..Len(r.errs) : r.errs[i].b < r.errs[i-1].b}

MissingTok(k) ==
  CASE k = "MissingExpectedRParen"    -> "RPAREN"
    [] k = "MissingExpectedAssign"    -> "ASSIGN"
    [] k = "MissingExpectedLParen"    -> "LPAREN"
    [] k = "MissingExpectedComma"     -> "COMMA"
    [] k = "MissingExpectedFSlash"    -> "FSLASH"
    [] k = "MissingExpectedSemiOrEOF" -> "SEMI"
    [] OTHER -> ""
MissingErr(ty) ==
  CASE ty = "RPAREN" -> "MissingExpectedRParen"
    [] ty = "ASSIGN" -> "MissingExpectedAssign"
    [] ty = "LPAREN" -> "MissingExpectedLParen"
    [] ty = "COMMA"  -> "MissingExpectedComma"
    [] ty = "FSLASH" -> "MissingExpectedFSlash"
    [] ty = "SEMI"   -> "MissingExpectedSemiOrEOF"
    [] OTHER -> ""
\* every 'missing expected X' error has a zero-width X token at its offset
C09_err_has_tok(r) ==
  {i \in 1..Len(r.errs) : LET e == r.errs[i] IN
     /\ MissingTok(e.k) # ""
     /\ ~\E j \in 1..NT(r) : /\ r.toks[j].ty = MissingTok(e.k)
                             /\ IsEmptyTok(r.toks[j]) /\ r.toks[j].b = e.b}
\* no more 'missing expected X' errors at an offset than zero-width X tokens there
\* (every such error is emitted together with its recovery token)
C09_multiplicity(r) ==
  {i \in 1..Len(r.errs) : LET e == r.errs[i] IN
     /\ MissingTok(e.k) # ""
     /\ Cardinality({j \in 1..Len(r.errs) : r.errs[j].k = e.k /\ r.errs[j].b = e.b}) >
        Cardinality({j \in 1..NT(r) : r.toks[j].ty = MissingTok(e.k) /\ IsEmptyTok(r.toks[j]) /\ r.toks[j].b = e.b})}
\* every zero-width symbol token (except the end-of-input semicolon) has its error
C09_tok_has_err(r) ==
  {j \in 1..NT(r) : LET t == r.toks[j] IN
     /\ IsEmptyTok(t)
     /\ MissingErr(t.ty) # ""
     /\ ~(t.ty = "SEMI" /\ t.b = r.len)
     /\ ~\E i \in 1..Len(r.errs) : r.errs[i].k = MissingErr(t.ty) /\ r.errs[i].b = t.b}

\* =====================================================================
\* C10  balance
\* =====================================================================
StrExprEnds == {"StringExprEnd", "BitTestingLiteralExprEnd", "DateLiteralExprEnd",
                "DateTimeLiteralExprEnd", "NameLiteralExprEnd", "TimeLiteralExprEnd",
                "HexStringLiteralExprEnd"}
\* depth of string-expression nesting before token i (sequence of length NT+1)
RECURSIVE StrDepths(_, _, _, _)
StrDepths(toks, i, d, acc) ==
  IF i > Len(toks) THEN acc
  ELSE LET nd == IF toks[i].ty = "StringExprStart" THEN d + 1
                 ELSE IF toks[i].ty \in StrExprEnds THEN d - 1 ELSE d
       IN StrDepths(toks, i + 1, nd, Append(acc, nd))
\* per step: a rollback never discards the region in which an error was reported
\* (errors are not part of the checkpoint, so such an error would be stale)
C09_rollback(r) ==
  LET ev == r.events IN
  {i \in 1..Len(ev) :
     /\ \E j \in 1..Len(ev[i].ops) : ev[i].ops[j] = "R"
     /\ \E e \in 1..ev[i].eb : r.errs[e].b > ev[i].ba}

C10_strexpr(r) ==
  LET dp == StrDepths(r.toks, 1, 0, <<0>>) IN
  {i \in 1..NT(r) :
     \/ dp[i+1] < 0
     \/ (r.toks[i].ty = "StringExprText" /\ dp[i] <= 0)}
C10_strexpr_open(r) ==
  LET dp == StrDepths(r.toks, 1, 0, <<0>>) IN
  IF dp[NT(r)+1] = 0 THEN {} ELSE {dp[NT(r)+1]}
C10_datalines(r) ==
  {i \in 1..NT(r) :
     \/ (r.toks[i].ty = "DatalinesStart" /\
           ~(i + 2 <= NT(r) /\ r.toks[i+1].ty = "DatalinesData" /\ r.toks[i+2].ty = "SEMI"))
     \/ (r.toks[i].ty = "DatalinesData" /\ ~(i > 1 /\ r.toks[i-1].ty = "DatalinesStart"))}
SkippableAfterKw(t) == t.ty \in {"WS", "CStyleComment"}
\* index of the first token after i that is not white space / a C-style comment
RECURSIVE NextSig(_, _)
NextSig(toks, i) ==
  IF i > Len(toks) THEN i
  ELSE IF SkippableAfterKw(toks[i]) THEN NextSig(toks, i + 1) ELSE i
C10_label(r) ==
  {i \in 1..NT(r) :
     /\ r.toks[i].ty = "MacroLabel"
     /\ LET j == NextSig(r.toks, i + 1) IN
          ~(j <= NT(r) /\ r.toks[j].ty = "COLON" /\ r.toks[j].ch = "HIDDEN")}
\* built-in macro functions that take arguments (everything between MacroIdentifier
\* and the statement keywords, except %sysmexecdepth)
ArgBuiltins ==
  {"KwmCmpres","KwmCompstor","KwmDatatyp","KwmEval","KwmIndex","KwmLeft","KwmLength",
   "KwmLowcase","KwmScan","KwmSubstr","KwmSymExist","KwmSymGlobl","KwmSymLocal",
   "KwmSysevalf","KwmSysfunc","KwmSysget","KwmSysmacexec","KwmSysmacexist",
   "KwmSysmexecname","KwmSysprod","KwmTrim","KwmUnquote","KwmUpcase","KwmVerify",
   "KwmKCmpres","KwmKIndex","KwmKLeft","KwmKLength","KwmKLowcase","KwmKScan",
   "KwmKSubstr","KwmKTrim","KwmKUpcase","KwmKVerify","KwmValidchs",
   "KwmQCmpres","KwmQLeft","KwmQLowcase","KwmQScan","KwmQSubstr","KwmQTrim",
   "KwmQSysfunc","KwmQUpcase","KwmQKCmpres","KwmQKLeft","KwmQKLowcase","KwmQKScan",
   "KwmQKSubstr","KwmQKTrim","KwmQKUpcase","KwmBquote","KwmNrBquote","KwmNrQuote",
   "KwmQuote","KwmSuperq","KwmStr","KwmNrStr"}
C10_call_paren(r) ==
  {i \in 1..NT(r) :
     /\ r.toks[i].ty \in ArgBuiltins
     /\ LET j == NextSig(r.toks, i + 1) IN
          ~(j <= NT(r) /\ r.toks[j].ty = "LPAREN" /\ r.toks[j].ch = r.toks[i].ch)}
=============================================================================
