------------------------------ MODULE SasLexer ------------------------------
(***************************************************************************)
(* Operational specification of the lexer (crates/sas-lexer/src/lexer).    *)
(*                                                                         *)
(* The machine state is one record S ("core" in DESIGN.md 3.2):            *)
(*   pos    cursor, as a character position (0-based)                      *)
(*   ts     start of the token being built (cur_token_start)               *)
(*   modes  the mode stack, bottom first; a mode is a record               *)
(*          [k, a, b, n, p] exactly like the hook's ModeView               *)
(*   ck     the checkpoint: [set, pos, ts, ml, nt, nl]                      *)
(*   pend   pending-statement stack (sequence of 0/1), nest: macro nesting *)
(*   toks   emitted tokens [ty, ch, c, pk, ps, pe] (type, channel, start,  *)
(*          payload kind n/i/f/s and the literal-buffer range of a string  *)
(*          payload); lines: line start positions; errs: errors [k, c]     *)
(*   nlit   length of the unquoted-literal buffer in bytes                 *)
(*   fault  "" or the internal fault the code would have hit (C01)         *)
(*   la     high-water mark of look-ahead (only used with lazy input)      *)
(*                                                                         *)
(* One *step* is one iteration of the main loop (Lexer::lex -> lex_token)  *)
(* or one turn of the unwinding loop of finalize_lexing.  Dispatchers are  *)
(* written arm by arm after their Rust counterparts; scanners are          *)
(* recursive operators over the text.  The text T is a record [cs, cc]     *)
(* (characters and classes, see Chars.tla) with cw, the UTF-8 widths.      *)
(*                                                                         *)
(* What the code does by accident is modelled as it is (errors are outside *)
(* the checkpoint, insert_token shifts indices, ...).                      *)
(***************************************************************************)
EXTENDS PyBind

CONSTANT MacroSepOn     \* the macro_sep feature

\* ---------------------------------------------------------------- text
TLen(T) == Len(T.cs)
At(T, i)  == IF i >= 0 /\ i < Len(T.cs) THEN T.cs[i + 1] ELSE ""      \* "" = end of input
Cl(T, i)  == IF i >= 0 /\ i < Len(T.cs) THEN T.cc[i + 1] ELSE 0
Eof(T, i) == i >= Len(T.cs)
WsAt(T, i)   == ~Eof(T, i) /\ IsWs(At(T, i), Cl(T, i))
NsAt(T, i)   == ~Eof(T, i) /\ IsNameStart(At(T, i), Cl(T, i))     \* is_valid_unicode_sas_name_start
XcAt(T, i)   == ~Eof(T, i) /\ IsXidCont(At(T, i), Cl(T, i))       \* is_xid_continue
AnsAt(T, i)  == ~Eof(T, i) /\ Cl(T, i) = 0 /\ IsAsciiNameStart(At(T, i))
AncAt(T, i)  == ~Eof(T, i) /\ Cl(T, i) = 0 /\ IsAsciiNameCont(At(T, i))
DigAt(T, i)  == ~Eof(T, i) /\ IsDigit(At(T, i))
Is1(T, i, c) == At(T, i) = c

Max2(x, y) == IF x > y THEN x ELSE y
Wd(T, i) == IF i >= 0 /\ i < Len(T.cw) THEN T.cw[i + 1] ELSE 0            \* UTF-8 width
RECURSIVE SumW(_, _, _)
SumW(T, a, b) == IF a >= b THEN 0 ELSE Wd(T, a) + SumW(T, a + 1, b)      \* bytes of T[a..b)
\* scanning T[i..b) with doubled q collapsed: <<escape seen, bytes of the unquoted text>>
RECURSIVE QScan(_, _, _, _, _, _)
QScan(T, q, i, b, esc, acc) ==
  IF i >= b THEN <<esc, acc>>
  ELSE IF At(T, i) = q /\ i + 1 < b /\ At(T, i + 1) = q THEN QScan(T, q, i + 2, b, TRUE, acc + Wd(T, i))
  ELSE QScan(T, q, i + 1, b, esc, acc + Wd(T, i))
\* the same for %-quoting of %str/%nrstr text
RECURSIVE PScan(_, _, _, _, _)
PScan(T, i, b, esc, acc) ==
  IF i >= b THEN <<esc, acc>>
  ELSE IF At(T, i) = "%" /\ i + 1 < b /\ At(T, i + 1) \in {"\"", "'", "%", "(", ")"}
         THEN PScan(T, i + 2, b, TRUE, acc + Wd(T, i + 1))
  ELSE PScan(T, i + 1, b, esc, acc + Wd(T, i))
\* bytes of a decoded hex string constant (Latin-1 code points as UTF-8)
HexBytes(content) == LET v == HexDecode(content) IN
                     Cardinality({i \in 1..Len(v) : TRUE}) + Cardinality({i \in 1..Len(v) : v[i] >= 128})

\* ---------------------------------------------------------------- modes
M0(k) == [k |-> k, a |-> "", b |-> "", n |-> 0, p |-> 0]
MDefault == M0("Default")
MWs == M0("WsOrCStyleCommentOnly")
MStrExpr(allowStat) == [M0("StringExpr") EXCEPT !.n = IF allowStat THEN 1 ELSE 0]
MExpect(ty, ch) == [M0("ExpectSymbol") EXCEPT !.a = ty, !.b = ch]
MExpectSemi == M0("ExpectSemiOrEOF")
MMaybeArgs(label) == [M0("MaybeMacroCallArgsOrLabel") EXCEPT !.n = IF label THEN 1 ELSE 0]
\* argument flags: ctx (0 built-in, 1 macro call, 2 macro def) + 4*populate + 8*terminate_on_comma
ArgFlags(ctx, populate, tcomma) == ctx + (IF populate THEN 4 ELSE 0) + (IF tcomma THEN 8 ELSE 0)
FCtx(n) == n % 4
FPopulate(n) == (n \div 4) % 2 = 1
FTermComma(n) == (n \div 8) % 2 = 1
MMaybeAssign(fl) == [M0("MaybeMacroCallArgAssign") EXCEPT !.n = fl]
MArgOrValue(fl) == [M0("MacroCallArgOrValue") EXCEPT !.n = fl]
MCallValue(fl, pnl) == [M0("MacroCallValue") EXCEPT !.n = fl, !.p = pnl]
MStrQuoted(mask, pnl) == [M0("MacroStrQuotedExpr") EXCEPT !.n = IF mask THEN 1 ELSE 0, !.p = pnl]
\* eval flags: float + 2*term_comma + 4*term_stat + 8*term_semi + 16*parens_mask_comma + 32*next_arg
\* next_arg: 0 none, 1 single eval expr, 2 eval expr, 3 macro arg
EvalFlags(float, nextArg, tstat, tsemi, pmc) ==
  (IF float THEN 1 ELSE 0) + (IF nextArg # 0 THEN 2 ELSE 0) + (IF tstat THEN 4 ELSE 0)
  + (IF tsemi THEN 8 ELSE 0) + (IF pmc THEN 16 ELSE 0) + 32 * nextArg
EvFloat(n) == n % 2 = 1
EvTermComma(n) == (n \div 2) % 2 = 1
EvTermStat(n) == (n \div 4) % 2 = 1
EvTermSemi(n) == (n \div 8) % 2 = 1
EvPmc(n) == (n \div 16) % 2 = 1
EvNextArg(n) == n \div 32
MEval(fl, pnl) == [M0("MacroEval") EXCEPT !.n = fl, !.p = pnl]
MLocalGlobal(isLocal) == [M0("MacroLocalGlobal") EXCEPT !.n = IF isLocal THEN 1 ELSE 0]
MNameExpr(found, err) == [M0("MacroNameExpr") EXCEPT !.n = IF found THEN 1 ELSE 0, !.a = err]

\* ---------------------------------------------------------------- state helpers
NoCk == [set |-> FALSE, pos |-> 0, ts |-> 0, tl |-> 0, ml |-> 0, nt |-> 0, nl |-> 0, ns |-> 0]

\* sep: the macro_sep feature of the build (a field, so that two builds can be run side by side)
InitStateF(bom, sepOn) ==
  [sep |-> sepOn, pos |-> bom, ts |-> bom, tl |-> 0, modes |-> <<MDefault>>, ck |-> NoCk, pend |-> <<0>>, nest |-> 0,
   toks |-> <<>>, lines |-> <<bom>>, errs |-> <<>>, fault |-> "", la |-> 0, ops |-> <<>>, nlit |-> 0, ss |-> 0]
InitState(bom) == InitStateF(bom, MacroSepOn)

Fault(S, f) == [S EXCEPT !.fault = IF @ = "" THEN f ELSE @]
\* lt: index (0-based) of the last token in the buffer when the error is reported, -1 if none (ErrorInfo.last_token)
EmitErr(S, k) == [S EXCEPT !.errs = Append(@, [k |-> k, c |-> S.pos, lt |-> Len(S.toks) - 1])]
EmitErrAt(S, k, c) == [S EXCEPT !.errs = Append(@, [k |-> k, c |-> c, lt |-> Len(S.toks) - 1])]
\* an error whose info was prepared in the state S0, before further tokens were emitted
EmitErrPrepared(S, k, S0) == [S EXCEPT !.errs = Append(@, [k |-> k, c |-> S0.pos, lt |-> Len(S0.toks) - 1])]
Top(S) == IF S.modes = <<>> THEN MDefault ELSE S.modes[Len(S.modes)]
Push(S, m) == [S EXCEPT !.modes = Append(@, m)]
PushAll(S, ms) == [S EXCEPT !.modes = @ \o ms]       \* ms in push order
\* pop_mode: an empty stack is an internal error; a default mode is pushed instead
Pop(S) == IF S.modes = <<>>
            THEN Push(EmitErr(Fault(S, "EmptyModeStack"), "InternalErrorEmptyModeStack"), MDefault)
            ELSE [S EXCEPT !.modes = SubSeq(@, 1, Len(@) - 1)]
SetTop(S, m) == [S EXCEPT !.modes[Len(S.modes)] = m]
Adv(S, n) == [S EXCEPT !.pos = @ + n]
Look(S, i) == [S EXCEPT !.la = Max2(@, i)]
\* start_token: token start and its line (cur_token_line = the last line registered so far, 0-based)
StartTok(S) == [S EXCEPT !.ts = S.pos, !.tl = Len(S.lines) - 1]
PkOf(ty) == IF ty \in {"IntegerLiteral", "MacroVarResolve"} THEN "i"
            ELSE IF ty \in {"FloatLiteral", "FloatExponentLiteral"} THEN "f" ELSE "n"
\* pi: the integer payload as a sequence of decimal digits (<<>>: none, or not modelled)
\* l: 0-based index of the line the token starts on (TokenInfo.line)
Tk(ty, ch, c, l) == [ty |-> ty, ch |-> ch, c |-> c, l |-> l, pk |-> PkOf(ty), ps |-> 0, pe |-> 0, pi |-> <<>>]
SmallDigits(v) == IF v >= 10 THEN <<v \div 10, v % 10>> ELSE <<v>>
\* sets the integer payload of the token emitted last
SetPi(S, ds) == [S EXCEPT !.toks[Len(S.toks)].pi = ds]
Emit(S, ch, ty) == [S EXCEPT !.toks = Append(@, Tk(ty, ch, S.ts, S.tl))]
EmitD(S, ty) == Emit(S, "DEFAULT", ty)
\* a token at a mark (mark_token_start / the final EOF): its line is the last line registered when the mark was taken,
\* i.e. the last line that starts at or before the mark
LineIdxAt(S, c) == Cardinality({j \in 1..Len(S.lines) : S.lines[j] <= c}) - 1
EmitAt(S, ch, ty, c) == [S EXCEPT !.toks = Append(@, Tk(ty, ch, c, LineIdxAt(S, c)))]
\* a token with a string payload of n bytes appended to the literal buffer (n < 0: no payload)
EmitS(S, ty, n) ==
  IF n < 0 THEN EmitD(S, ty)
  ELSE [S EXCEPT !.toks = Append(@, [ty |-> ty, ch |-> "DEFAULT", c |-> S.ts, l |-> S.tl, pk |-> "s", ps |-> S.nlit, pe |-> S.nlit + n, pi |-> <<>>]),
                 !.nlit = @ + n]
\* payload length of quote-collapsed text T[a..b): -1 when nothing was collapsed
QPay(T, q, a, b) == LET r == QScan(T, q, a, b, FALSE, 0) IN IF r[1] THEN r[2] ELSE 0 - 1
AddLine(S) == [S EXCEPT !.lines = Append(@, S.pos)]
LastTok(S) == IF S.toks = <<>> THEN "None" ELSE S.toks[Len(S.toks)].ty
RECURSIVE LastDefIdx(_, _)
LastDefIdx(toks, i) == IF i < 1 THEN 0 ELSE IF toks[i].ch = "DEFAULT" THEN i ELSE LastDefIdx(toks, i - 1)
LastDef(S) == LET i == LastDefIdx(S.toks, Len(S.toks)) IN IF i = 0 THEN "None" ELSE S.toks[i].ty
\* update_last_token: type, channel and payload (n bytes appended to the literal buffer; n < 0: none)
UpdateLast(S, ch, ty, n) ==
  IF S.toks = <<>> THEN EmitS(EmitErr(Fault(S, "NoTokenToReplace"), "InternalErrorNoTokenToReplace"), ty, n)
  ELSE IF n < 0 THEN [S EXCEPT !.toks[Len(S.toks)] = [@ EXCEPT !.ty = ty, !.ch = ch, !.pk = PkOf(ty), !.ps = 0, !.pe = 0, !.pi = <<>>]]
  ELSE [S EXCEPT !.toks[Len(S.toks)] = [@ EXCEPT !.ty = ty, !.ch = ch, !.pk = "s", !.ps = S.nlit, !.pe = S.nlit + n, !.pi = <<>>],
                 !.nlit = @ + n]

Pend(S) == S.pend[Len(S.pend)] = 1
SetPend(S, v) == [S EXCEPT !.pend[Len(S.pend)] = IF v THEN 1 ELSE 0]
PushPend(S, v) == [S EXCEPT !.pend = Append(@, IF v THEN 1 ELSE 0)]
PopPend(S) == IF Len(S.pend) > 1 THEN [S EXCEPT !.pend = SubSeq(@, 1, Len(@) - 1)] ELSE S

Op(S, o) == [S EXCEPT !.ops = Append(@, o)]
Checkpoint(S) ==
  LET S1 == IF S.ck.set THEN Op(Fault(S, "CheckpointOverLive"), "CL") ELSE Op(S, "C") IN
  [S1 EXCEPT !.ck = [set |-> TRUE, pos |-> S.pos, ts |-> S.ts, tl |-> S.tl, ml |-> Len(S.modes),
                     nt |-> Len(S.toks), nl |-> Len(S.lines), ns |-> S.nlit]]
ClearCk(S) == [Op(S, IF S.ck.set THEN "X" ELSE "XN") EXCEPT !.ck = NoCk]
Rollback(S) ==
  IF S.ck.set
    THEN [Op(S, "R") EXCEPT !.pos = S.ck.pos, !.ts = S.ck.ts, !.tl = S.ck.tl,
                           !.modes = SubSeq(S.modes, 1, IF S.ck.ml < Len(S.modes) THEN S.ck.ml ELSE Len(S.modes)),
                           !.toks = SubSeq(S.toks, 1, IF S.ck.nt < Len(S.toks) THEN S.ck.nt ELSE Len(S.toks)),
                           !.lines = SubSeq(S.lines, 1, IF S.ck.nl < Len(S.lines) THEN S.ck.nl ELSE Len(S.lines)),
                           !.nlit = IF S.ck.ns < S.nlit THEN S.ck.ns ELSE S.nlit,
                           !.ck = NoCk]
    ELSE EmitErr(Fault(Op(S, "RM"), "MissingCheckpoint"), "InternalErrorMissingCheckpoint")

\* ---------------------------------------------------------------- look-ahead helpers (macro.rs)
\* is_macro_amp: <<is macro var, number of ampersands>>, starting at position i
RECURSIVE AmpCount(_, _)
AmpCount(T, i) == IF Is1(T, i, "&") THEN 1 + AmpCount(T, i + 1) ELSE 0
IsMacroAmp(T, i) == LET n == AmpCount(T, i) IN <<NsAt(T, i + n), n>>
QuotableOp(c) == c \in {"~", "^", "="}
\* is_macro_percent(follow char at position i, in eval context)
IsMacroPercent(T, i, inEval) ==
  Is1(T, i, "*") \/ NsAt(T, i) \/ (inEval /\ QuotableOp(At(T, i)))

\* macro identifier after '%' starting at position i (the name start): end position and keyword type
\* (continuation: ASCII name characters, or non-ASCII XID_Continue)
RECURSIVE MIdentEnd(_, _)
MIdentEnd(T, i) ==
  IF (Cl(T, i) = 0 /\ AncAt(T, i)) \/ (Cl(T, i) # 0 /\ XcAt(T, i)) THEN MIdentEnd(T, i + 1) ELSE i
MIdentAscii(T, i, e) == \A j \in i..e-1 : Cl(T, j) = 0
\* token type of the macro identifier T[i..e): a macro keyword type or "MacroIdentifier"
MIdentType(T, i, e) ==
  IF ~MIdentAscii(T, i, e) \/ e - i > MaxMKwLen THEN "MacroIdentifier"
  ELSE LET kw == MKwLookup(UpStr(SubSeq(T.cs, i + 1, e))) IN IF kw = "" THEN "MacroIdentifier" ELSE kw
IsStatType(ty) == ty \in KwmStatTypes
IsQuoteCallType(ty) == ty \in KwmQuoteCallTypes

\* is_macro_eval_mnemonic at position i: <<token type or "", extra advance>>
Mnemonic(T, i) ==
  LET c1 == Up(At(T, i))  c2 == Up(At(T, i + 1))
      x3 == XcAt(T, i + 2)  c3 == Up(At(T, i + 2))  x4 == XcAt(T, i + 3)
  IN IF Eof(T, i) \/ Eof(T, i + 1) THEN <<"", 0>>
     ELSE CASE c1 = "E" /\ c2 = "Q" /\ ~x3 -> <<"KwEQ", 1>>
            [] c1 = "I" /\ c2 = "N" /\ ~x3 -> <<"KwIN", 1>>
            [] c1 = "O" /\ c2 = "R" /\ ~x3 -> <<"KwOR", 1>>
            [] c1 = "L" /\ c2 = "T" /\ ~x3 -> <<"KwLT", 1>>
            [] c1 = "L" /\ c2 = "E" /\ ~x3 -> <<"KwLE", 1>>
            [] c1 = "G" /\ c2 = "T" /\ ~x3 -> <<"KwGT", 1>>
            [] c1 = "G" /\ c2 = "E" /\ ~x3 -> <<"KwGE", 1>>
            [] c1 = "A" /\ c2 = "N" /\ x3 /\ c3 = "D" -> IF x4 THEN <<"", 0>> ELSE <<"KwAND", 2>>
            [] c1 = "N" /\ c2 = "E" /\ ~x3 -> <<"KwNE", 1>>
            [] c1 = "N" /\ c2 = "O" /\ x3 /\ c3 = "T" -> IF x4 THEN <<"", 0>> ELSE <<"KwNOT", 2>>
            [] OTHER -> <<"", 0>>
MnemStart(c) == Up(c) \in {"E", "N", "L", "G", "A", "O", "I"}
IsLogicalOp(ty) == ty \in {"LT", "KwLT", "LE", "KwLE", "ASSIGN", "KwEQ", "HASH", "KwIN", "NE", "KwNE",
                           "GT", "KwGT", "GE", "KwGE"}
SepStatTypes == {"MacroLabel", "KwmAbort", "KwmCopy", "KwmDisplay", "KwmGlobal", "KwmGoto", "KwmInput",
                 "KwmLocal", "KwmPut", "KwmReturn", "KwmSymdel", "KwmSyscall", "KwmSysexec", "KwmSyslput",
                 "KwmSysmacdelete", "KwmSysmstoreclear", "KwmSysrput", "KwmWindow", "KwmMacro", "KwmMend",
                 "KwmLet", "KwmIf", "KwmElse", "KwmDo", "KwmEnd"}
NeedsMacroSep(prev, ty) ==
  prev \notin {"None", "SEMI", "MacroLabel", "KwmThen", "KwmElse"} /\ ty \in SepStatTypes

\* ---------------------------------------------------------------- simple scanners
\* lex_ws: white space run, one line per LF
RECURSIVE WsLoop(_, _)
WsLoop(S, T) ==
  LET S1 == IF Is1(T, S.pos, LF) THEN AddLine(Adv(S, 1)) ELSE Adv(S, 1) IN
  IF WsAt(T, S1.pos) THEN WsLoop(S1, T) ELSE S1
LexWs(S, T) == Emit(WsLoop(S, T), "HIDDEN", "WS")

\* lex_cstyle_comment (cursor at '/', next is '*'): the loop returns <<closed?, state>>
RECURSIVE CommentLoop(_, _)
CommentLoop(S, T) ==
  IF Eof(T, S.pos) THEN <<FALSE, [S EXCEPT !.la = TLen(T) + 1]>>          \* ran off the end
  ELSE LET c == At(T, S.pos)  S1 == Adv(S, 1) IN
       IF c = "*" /\ Is1(T, S1.pos, "/") THEN <<TRUE, Adv(S1, 1)>>
       ELSE CommentLoop(IF c = LF THEN AddLine(S1) ELSE S1, T)
LexCStyleComment(S, T) ==
  LET r == CommentLoop(Adv(S, 2), T) IN
  IF r[1] THEN Emit(r[2], "COMMENT", "CStyleComment")
  ELSE EmitErr(Emit(r[2], "COMMENT", "CStyleComment"), "UnterminatedComment")

\* advance over a range, adding a line after every LF (helper for scanners that are
\* described by their end position)
RECURSIVE AdvLines(_, _, _)
AdvLines(S, T, to) ==
  IF S.pos >= to THEN S
  ELSE AdvLines(IF Is1(T, S.pos, LF) THEN AddLine(Adv(S, 1)) ELSE Adv(S, 1), T, to)

\* resolve_string_literal_ending at position i: <<type, characters consumed>>
LitEnding(T, i) ==
  LET c == Up(At(T, i)) IN
  CASE c = "B" -> <<"BitTestingLiteral", 1>>
    [] c = "D" -> IF Up(At(T, i + 1)) = "T" THEN <<"DateTimeLiteral", 2>> ELSE <<"DateLiteral", 1>>
    [] c = "N" -> <<"NameLiteral", 1>>
    [] c = "T" -> <<"TimeLiteral", 1>>
    [] c = "X" -> <<"HexStringLiteral", 1>>
    [] OTHER -> <<"StringLiteral", 0>>
ExprEnding(ty) ==
  CASE ty = "BitTestingLiteral" -> "BitTestingLiteralExprEnd" [] ty = "DateLiteral" -> "DateLiteralExprEnd"
    [] ty = "DateTimeLiteral" -> "DateTimeLiteralExprEnd" [] ty = "NameLiteral" -> "NameLiteralExprEnd"
    [] ty = "TimeLiteral" -> "TimeLiteralExprEnd" [] ty = "HexStringLiteral" -> "HexStringLiteralExprEnd"
    [] OTHER -> "StringExprEnd"

\* lex_single_quoted_str (cursor at the opening quote)
LexSingleQuoted(S, T) ==
  LET cl == QuoteClose(T.cs, "'", S.pos + 2)          \* 1-based index of the closing quote, 0 if none
  IN IF cl = 0
       THEN EmitErr(EmitS(AdvLines([S EXCEPT !.la = TLen(T) + 1], T, TLen(T)), "StringLiteral",
                          QPay(T, "'", S.pos + 1, TLen(T))),
                    "UnterminatedStringLiteral")
       ELSE LET S1 == AdvLines(S, T, cl)                \* just past the closing quote
                en == LitEnding(T, S1.pos)
                S2 == Look(Adv(S1, en[2]), S1.pos + 2)
                content == SubSeq(T.cs, S.pos + 2, cl - 1)
                hex == en[1] = "HexStringLiteral"
                bad == hex /\ ~HexValid(content)
                pay == IF hex /\ ~bad THEN HexBytes(content) ELSE QPay(T, "'", S.pos + 1, cl - 1)
            IN IF bad THEN EmitErr(EmitS(S2, en[1], pay), "InvalidHexStringConstant") ELSE EmitS(S2, en[1], pay)

\* lex_string_expression_start
LexStrExprStart(S, allowStat) == Push(EmitD(Adv(S, 1), "StringExprStart"), MStrExpr(allowStat))

\* ---------------------------------------------------------------- macro variable expressions
\* get_macro_resolve_ops_from_amps: binary digits of the count, highest first
ResolveOps(n) == LET S8 == {i \in 0..12 : (n \div (2^i)) % 2 = 1} IN
                 [j \in 1..Cardinality(S8) |-> CHOOSE i \in S8 : Cardinality({x \in S8 : x > i}) = j - 1]
RECURSIVE EmitResolves(_, _, _)
EmitResolves(S, ops, j) ==
  IF j > Len(ops) THEN S
  ELSE EmitResolves(StartTok(SetPi(EmitD(Adv(S, 2^(ops[j])), "MacroVarResolve"), SmallDigits(ops[j]))), ops, j + 1)
\* the body loop of lex_macro_var_expr; stk is the resolve-op stack
RECURSIVE MVarLoop(_, _, _)
MVarLoop(S, T, stk) ==
  IF stk = <<>> THEN S
  ELSE IF NsAt(T, S.pos) THEN
         LET e == NameEnd(T.cs, T.cc, S.pos + 2) - 1 IN      \* eat_while(is_xid_continue)
         MVarLoop(StartTok(EmitD([S EXCEPT !.pos = e], "MacroString")), T, stk)
  ELSE IF Is1(T, S.pos, ".") THEN
         MVarLoop(StartTok(EmitD(Adv(S, 1), "MacroVarTerm")), T, SubSeq(stk, 1, Len(stk) - 1))
  ELSE IF Is1(T, S.pos, "&") THEN
         LET am == IsMacroAmp(T, S.pos) IN
         IF ~am[1] THEN Look(S, S.pos + am[2] + 1)
         ELSE LET fol == ResolveOps(am[2])
                  S1 == EmitResolves(S, fol, 1)
                  keep == SelectSeq(stk, LAMBDA pr : pr > fol[1])
              IN MVarLoop(S1, T, keep \o fol)
  ELSE S
\* lex_macro_var_expr: <<lexed?, state>>
LexMacroVarExpr(S, T) ==
  LET am == IsMacroAmp(T, S.pos) IN
  IF ~am[1] THEN <<FALSE, Look(S, S.pos + am[2] + 1)>>
  ELSE LET ops == ResolveOps(am[2]) IN <<TRUE, MVarLoop(EmitResolves(S, ops, 1), T, ops)>>
\* a run of '&' that is not a macro variable: eat_while(|c| c == '&')
EatAmps(S, T) == Adv(S, AmpCount(T, S.pos))

\* ---------------------------------------------------------------- mode templates (expect_* helpers)
\* each is the sequence of modes in push order
TplStrCall(mask) ==
  <<MExpect("RPAREN", "HIDDEN"), MStrQuoted(mask, 0), MExpect("LPAREN", "HIDDEN"), MWs>>
TplEvalCall(sysevalf) ==
  <<MExpect("RPAREN", "DEFAULT"),
    MEval(EvalFlags(sysevalf, IF sysevalf THEN 3 ELSE 0, FALSE, FALSE, FALSE), 0),
    MWs, MExpect("LPAREN", "DEFAULT"), MWs>>
TplScanSubstr(isScan) ==
  <<MExpect("RPAREN", "DEFAULT"),
    MEval(EvalFlags(FALSE, IF isScan THEN 3 ELSE 1, FALSE, FALSE, TRUE), 0),
    MWs, MExpect("COMMA", "DEFAULT"), MCallValue(ArgFlags(0, FALSE, TRUE), 0),
    MWs, MExpect("LPAREN", "DEFAULT"), MWs>>
TplBuiltinArgs ==
  <<MExpect("RPAREN", "DEFAULT"), MCallValue(ArgFlags(0, TRUE, TRUE), 0), MWs, MExpect("LPAREN", "DEFAULT"), MWs>>
TplBuiltinOneArg ==
  <<MExpect("RPAREN", "DEFAULT"), MCallValue(ArgFlags(0, FALSE, FALSE), 0), MWs, MExpect("LPAREN", "DEFAULT"), MWs>>
TplBuiltinNamed ==
  <<MExpect("RPAREN", "DEFAULT"), MArgOrValue(ArgFlags(1, TRUE, TRUE)), MWs, MExpect("LPAREN", "DEFAULT"), MWs>>
TplSysfunc ==
  <<MExpect("RPAREN", "DEFAULT"), M0("MaybeTailMacroArgValue"), MWs, MExpect("RPAREN", "DEFAULT"),
    MEval(EvalFlags(TRUE, 2, FALSE, FALSE, TRUE), 0), MWs, MExpect("LPAREN", "DEFAULT"), MWs,
    MNameExpr(FALSE, "MissingSysfuncFuncName"), MWs, MExpect("LPAREN", "DEFAULT"), MWs>>
TplUntilWhile ==
  <<MExpectSemi, MWs, MExpect("RPAREN", "DEFAULT"), MEval(EvalFlags(FALSE, 0, FALSE, FALSE, FALSE), 0),
    MWs, MExpect("LPAREN", "DEFAULT"), MWs>>
TplLet(err) ==
  <<MExpectSemi, M0("MacroSemiTerminatedTextExpr"), MWs, MExpect("ASSIGN", "DEFAULT"), MWs,
    MNameExpr(FALSE, err), MWs>>
TplNameThenOpts ==
  <<MExpectSemi, M0("MacroStatOptionsTextExpr"), MWs, MExpect("FSLASH", "DEFAULT"), MWs,
    MNameExpr(FALSE, "InvalidOrOutOfOrderStatement"), MWs>>
TplSyscall ==
  <<MExpectSemi, MWs, MExpect("RPAREN", "DEFAULT"), MEval(EvalFlags(TRUE, 2, FALSE, FALSE, TRUE), 0), MWs,
    MExpect("LPAREN", "DEFAULT"), MWs, MNameExpr(FALSE, "MissingSyscallRoutineName"), MWs>>
TplDoIter(found, err) ==   \* the modes of an iterative %do after the keyword, in push order
  <<MEval(EvalFlags(FALSE, 0, TRUE, TRUE, FALSE), 0), MWs, MExpect("ASSIGN", "DEFAULT"), MWs, MNameExpr(found, err)>>

ScanTypes == {"KwmScan", "KwmQScan", "KwmKScan", "KwmQKScan"}
SubstrTypes == {"KwmSubstr", "KwmQSubstr", "KwmKSubstr", "KwmQKSubstr"}
BuiltinArgsTypes == {"KwmDatatyp", "KwmLowcase", "KwmKLowcase", "KwmCmpres", "KwmQCmpres", "KwmKCmpres", "KwmQKCmpres",
                     "KwmLeft", "KwmQLeft", "KwmKLeft", "KwmQKLeft", "KwmTrim", "KwmQTrim", "KwmKTrim", "KwmQKTrim"}
OneArgTypes == {"KwmIndex", "KwmKIndex", "KwmLength", "KwmKLength", "KwmQLowcase", "KwmQKLowcase", "KwmUpcase",
                "KwmKUpcase", "KwmQUpcase", "KwmQKUpcase", "KwmSysmexecname", "KwmSysprod", "KwmQuote", "KwmNrQuote",
                "KwmBquote", "KwmNrBquote", "KwmSuperq", "KwmUnquote", "KwmSymExist", "KwmSymGlobl", "KwmSymLocal",
                "KwmSysget", "KwmSysmacexec", "KwmSysmacexist"}
NamedArgTypes == {"KwmCompstor", "KwmValidchs", "KwmVerify", "KwmKVerify"}
StatOptsTypes == {"KwmAbort", "KwmDisplay", "KwmGoto", "KwmInput", "KwmSymdel", "KwmSyslput", "KwmSysrput", "KwmWindow"}

\* dispatch_macro_call_or_stat: emit the keyword token (and MacroSep) and populate the mode stack
DispatchCallOrStat(S0, kw, allowLabel) ==
  LET tm == Top(S0).k
      sep == S0.sep /\ NeedsMacroSep(LastDef(S0), kw)
             /\ tm \notin {"StringExpr", "MacroCallArgOrValue", "MacroCallValue"}
      S1 == IF sep THEN EmitD(S0, "MacroSep") ELSE S0
      S == Emit(S1, IF kw \in {"KwmStr", "KwmNrStr"} THEN "HIDDEN" ELSE "DEFAULT", kw)
  IN
  CASE kw \in {"KwmStr", "KwmNrStr"} -> PushAll(S, TplStrCall(kw = "KwmNrStr"))
    [] kw \in {"KwmEval", "KwmSysevalf"} -> PushAll(S, TplEvalCall(kw = "KwmSysevalf"))
    [] kw \in ScanTypes -> PushAll(S, TplScanSubstr(TRUE))
    [] kw \in SubstrTypes -> PushAll(S, TplScanSubstr(FALSE))
    [] kw \in BuiltinArgsTypes -> PushAll(S, TplBuiltinArgs)
    [] kw \in OneArgTypes -> PushAll(S, TplBuiltinOneArg)
    [] kw \in NamedArgTypes -> PushAll(S, TplBuiltinNamed)
    [] kw = "MacroIdentifier" -> PushAll(Checkpoint(S), <<MMaybeArgs(allowLabel), MWs>>)
    [] kw = "KwmSysmexecdepth" -> S
    [] kw \in {"KwmSysfunc", "KwmQSysfunc"} -> PushAll(S, TplSysfunc)
    [] kw \in {"KwmInclude", "KwmList", "KwmThen", "KwmElse"} -> Push(S, MWs)
    [] kw \in {"KwmReturn", "KwmRun", "KwmSysmstoreclear"} -> PushAll(S, <<MExpectSemi, MWs>>)
    [] kw = "KwmEnd" -> PopPend(PushAll(S, <<MExpectSemi, MWs>>))
    [] kw \in {"KwmPut", "KwmSysexec"} -> PushAll(S, <<MExpectSemi, M0("MacroSemiTerminatedTextExpr"), MWs>>)
    [] kw \in StatOptsTypes -> PushAll(S, <<MExpectSemi, M0("MacroStatOptionsTextExpr"), MWs>>)
    [] kw = "KwmMend" ->
         PopPend([PushAll(S, <<MExpectSemi, M0("MacroStatOptionsTextExpr"), MWs>>)
                    EXCEPT !.nest = IF @ > 0 THEN @ - 1 ELSE 0])
    [] kw = "KwmDo" -> PushPend(PushAll(S, <<M0("MacroDo"), MWs>>), Pend(S))
    [] kw \in {"KwmTo", "KwmBy"} ->
         PushAll(S, <<MExpectSemi, MEval(EvalFlags(FALSE, 0, kw = "KwmTo", TRUE, FALSE), 0), MWs>>)
    [] kw \in {"KwmUntil", "KwmWhile"} -> PushAll(S, TplUntilWhile)
    [] kw = "KwmLet" -> PushAll(S, TplLet("InvalidMacroLetVarName"))
    [] kw \in {"KwmLocal", "KwmGlobal"} -> PushAll(S, <<MLocalGlobal(kw = "KwmLocal"), MWs>>)
    [] kw = "KwmIf" -> PushAll(S, <<MEval(EvalFlags(FALSE, 0, TRUE, TRUE, FALSE), 0), MWs>>)
    [] kw \in {"KwmCopy", "KwmSysmacdelete"} -> PushAll(S, TplNameThenOpts)
    [] kw = "KwmMacro" ->
         PushPend([PushAll(S, <<MExpectSemi, M0("MacroStatOptionsTextExpr"), MWs, M0("MaybeMacroDefArgs"), MWs,
                               M0("MacroDefName"), MWs>>) EXCEPT !.nest = @ + 1], FALSE)
    [] kw = "KwmSyscall" -> PushAll(S, TplSyscall)
    [] OTHER -> Fault(S, "UnknownMacroKeyword")

\* lex_macro_identifier (cursor at '%', a name start follows): consume and dispatch
LexMacroIdentifier(S, T, allowLabel) ==
  LET e == MIdentEnd(T, S.pos + 1)
      kw == MIdentType(T, S.pos + 1, e)
  IN DispatchCallOrStat(Look([S EXCEPT !.pos = e], e + 1), kw, allowLabel)

\* lex_macro_call: <<"None" | "MacroCall" | "MacroStat", state>>
LexMacroCall(S, T, allowQuoteCall, allowStatToFollow) ==
  IF ~NsAt(T, S.pos + 1) THEN <<"None", Look(S, S.pos + 2)>>
  ELSE LET e == MIdentEnd(T, S.pos + 1)
           kw == MIdentType(T, S.pos + 1, e)
           S1 == Look(S, e + 1)
       IN IF ~IsStatType(kw) THEN
            IF ~allowQuoteCall /\ IsQuoteCallType(kw) THEN <<"None", S1>>
            ELSE <<"MacroCall", DispatchCallOrStat([S1 EXCEPT !.pos = e], kw, FALSE)>>
          ELSE <<"MacroStat", IF allowStatToFollow THEN S1 ELSE EmitErr(S1, "OpenCodeRecursionError")>>
\* is_macro_stat(text at position i, which is a '%')
IsMacroStatAt(T, i) == LET e == MIdentEnd(T, i + 1) IN e > i + 1 /\ IsStatType(MIdentType(T, i + 1, e))

\* lex_macro_comment (cursor at '%', next is '*')
RECURSIVE MCommentLoop(_, _, _)
MCommentLoop(S, T, q) ==
  IF Eof(T, S.pos) THEN [S EXCEPT !.la = TLen(T) + 1]
  ELSE LET c == At(T, S.pos)  S1 == Adv(S, 1) IN
       IF c = ";" /\ q = "" THEN S1
       ELSE IF c = LF THEN MCommentLoop(AddLine(S1), T, q)
       ELSE IF c \in {"'", "\""} /\ q = "" THEN MCommentLoop(S1, T, c)
       ELSE IF c = q THEN MCommentLoop(S1, T, "")
       ELSE MCommentLoop(S1, T, q)
LexMacroComment(S, T) == Emit(MCommentLoop(Adv(S, 2), T, ""), "COMMENT", "MacroComment")

\* ---------------------------------------------------------------- open code (Default mode)
\* lex_datalines; returns <<lexed?, state>>; cursor is after the keyword
LexDatalines(S, T, is4) ==
  LET ld == LastDef(S)
      w == WsEnd(T.cs, T.cc, S.pos + 1) - 1          \* position after the white space run
  IN IF ld \notin {"None", "SEMI"} THEN <<FALSE, S>>
     ELSE IF ~Is1(T, w, ";") THEN <<FALSE, Look(S, w + 1)>>
     ELSE LET S1 == StartTok(EmitD(AdvLines(S, T, w + 1), "DatalinesStart"))
              ds == S1.pos + 1                            \* 1-based index of the first data character
              t == IF is4 THEN FirstSemi4(T.cs, ds) ELSE (IF FirstSemi(T.cs, ds) > TLen(T) THEN 0 ELSE FirstSemi(T.cs, ds))
              \* where the data ends: at the terminator, or (unterminated, datalines4) at the first ';'
              \* with fewer than four *bytes* left, from which on everything is data
              dEnd == IF t # 0 THEN t - 1 ELSE TLen(T)
              S2 == AdvLines([S1 EXCEPT !.la = IF t = 0 THEN TLen(T) + 1 ELSE @], T, dEnd)
              S3 == IF t = 0 THEN EmitErr(S2, "UnterminatedDatalines") ELSE S2
              S4 == StartTok(EmitD(S3, "DatalinesData"))
              S5 == IF t = 0 THEN S4 ELSE Adv(S4, IF is4 THEN 4 ELSE 1)
          IN <<TRUE, EmitD(S5, "SEMI")>>

\* lex_identifier (cursor at a name start)
LexIdentifier(S, T) ==
  LET e == NameEnd(T.cs, T.cc, S.pos + 2) - 1
      ascii == \A j \in S.pos..e-1 : Cl(T, j) = 0
      S1 == Look([S EXCEPT !.pos = e], e + 1)
      up == IF ascii /\ e - S.pos <= MaxKwLen THEN UpStr(SubSeq(T.cs, S.pos + 1, e)) ELSE ""
      kw == IF up = "" THEN "" ELSE KwLookup(up)
  IN IF up = "" THEN EmitD(S1, "Identifier")
     ELSE IF kw # "" THEN EmitD(S1, kw)
     ELSE IF up \in DatalinesKw1 \cup DatalinesKw4 THEN
            LET d == LexDatalines(S1, T, up \in DatalinesKw4) IN
            IF d[1] THEN d[2] ELSE EmitD(d[2], "Identifier")
     ELSE EmitD(S1, "Identifier")

\* lex_numeric_literal (cursor at a digit, or at '.' followed by a digit)
LexNumeric(S, T) ==
  LET R == RefNum(T.cs, S.pos + 1)
      S0 == EmitD(Look([S EXCEPT !.pos = R.end - 1], R.end + 1), R.ty)
      S1 == IF R.ty = "IntegerLiteral" /\ R.errs = {} THEN SetPi(S0, IntDigits(T.cs, S.pos + 1, R)) ELSE S0
      S2 == IF "InvalidNumericLiteral" \in R.errs THEN EmitErr(S1, "InvalidNumericLiteral") ELSE S1
  IN IF "UnterminatedHexNumericLiteral" \in R.errs THEN EmitErr(S2, "UnterminatedHexNumericLiteral") ELSE S2

\* lex_predicted_comment (cursor after the '*'): <<lexed?, state>>
\* the loop returns <<hit a macro trigger?, state>>
RECURSIVE PredLoop(_, _, _)
PredLoop(S, T, inMacro) ==
  IF Eof(T, S.pos) THEN <<FALSE, [S EXCEPT !.la = TLen(T) + 1]>>
  ELSE LET c == At(T, S.pos)  S1 == Adv(S, 1) IN
       IF c = LF THEN PredLoop(AddLine(S1), T, inMacro)
       ELSE IF inMacro /\ c = "%" /\ NsAt(T, S1.pos) THEN <<TRUE, S1>>
       ELSE IF c = ";" THEN <<FALSE, S1>>
       ELSE PredLoop(S1, T, inMacro)
LexPredictedComment(S, T) ==
  IF Pend(S) THEN <<FALSE, S>>
  ELSE IF S.nest = 0 THEN <<TRUE, Emit(PredLoop(S, T, FALSE)[2], "COMMENT", "PredictedCommentStat")>>
  ELSE LET r == PredLoop(Checkpoint(S), T, TRUE) IN
       IF r[1] THEN <<FALSE, Rollback(r[2])>>
       ELSE <<TRUE, Emit(ClearCk(r[2]), "COMMENT", "PredictedCommentStat")>>

\* lex_char_format (cursor after '$'): <<lexed?, state>>
\* $ [name] digits* . digits*  -- the look-ahead runs up to where the '.' must be
LexCharFormat(S, T) ==
  LET a == IF NsAt(T, S.pos) THEN NameEnd(T.cs, T.cc, S.pos + 2) - 1 ELSE S.pos    \* after the name
      b == RunEnd(T.cs, a + 1, Digits) - 1                                          \* after the width
  IN IF ~Is1(T, b, ".") THEN <<FALSE, Look(S, b + 1)>>
     ELSE LET e == RunEnd(T.cs, b + 2, Digits) - 1 IN
          <<TRUE, EmitD(Look([S EXCEPT !.pos = e], e + 1), "CharFormat")>>

\* lex_symbols
LexSymbols(S, T) ==
  LET c == At(T, S.pos)  k == Cl(T, S.pos) IN
  IF k = 0 /\ c = "*" THEN
       LET pc == LexPredictedComment(Adv(S, 1), T) IN
       IF pc[1] THEN pc[2]
       ELSE IF Is1(T, pc[2].pos, "*") THEN EmitD(Adv(pc[2], 1), "STAR2") ELSE EmitD(pc[2], "STAR")
  ELSE IF k = 0 /\ c = "." THEN
       IF DigAt(T, S.pos + 1) THEN LexNumeric(S, T) ELSE EmitD(Adv(S, 1), "DOT")
  ELSE IF k = 0 /\ c = "$" THEN
       LET cf == LexCharFormat(Adv(S, 1), T) IN IF cf[1] THEN cf[2] ELSE EmitD(cf[2], "DOLLAR")
  ELSE LET sy == SymbolAt(T.cs, T.cc, S.pos + 1) IN
       Emit(Adv(S, sy[2]), IF sy[1] = "CatchAll" THEN "HIDDEN" ELSE "DEFAULT", sy[1])

DispatchDefault(S0, T) ==
  LET S == StartTok(S0)
      c == At(T, S.pos)  k == Cl(T, S.pos)  d == At(T, S.pos + 1)
  IN
  IF IsWs(c, k) THEN LexWs(S, T)
  ELSE IF c = "'" THEN SetPend(LexSingleQuoted(S, T), TRUE)
  ELSE IF c = "\"" THEN SetPend(LexStrExprStart(S, TRUE), TRUE)
  ELSE IF c = ";" THEN SetPend(EmitD(Adv(S, 1), "SEMI"), FALSE)
  ELSE IF c = "/" THEN
       IF d = "*" THEN LexCStyleComment(S, T) ELSE SetPend(EmitD(Adv(S, 1), "FSLASH"), TRUE)
  ELSE IF c = "&" THEN
       LET mv == LexMacroVarExpr(S, T) IN
       SetPend(IF mv[1] THEN mv[2] ELSE EmitD(EatAmps(mv[2], T), "AMP"), TRUE)
  ELSE IF c = "%" THEN
       IF d = "*" THEN LexMacroComment(S, T)
       ELSE IF NsAt(T, S.pos + 1) THEN LexMacroIdentifier(S, T, TRUE)
       ELSE SetPend(EmitD(Adv(S, 1), "PERCENT"), TRUE)
  ELSE IF IsDigit(c) THEN SetPend(LexNumeric(S, T), TRUE)
  ELSE IF IsNameStart(c, k) THEN
       LET S1 == LexIdentifier(S, T) IN SetPend(S1, LastTok(S1) # "SEMI")
  ELSE LET S1 == LexSymbols(S, T) IN
       IF S1.toks # <<>> /\ LastTok(S1) # "PredictedCommentStat" THEN SetPend(S1, TRUE) ELSE S1

\* ---------------------------------------------------------------- expected symbols
ExpectInfo(ty) ==
  CASE ty = "RPAREN" -> <<")", "MissingExpectedRParen">> [] ty = "ASSIGN" -> <<"=", "MissingExpectedAssign">>
    [] ty = "LPAREN" -> <<"(", "MissingExpectedLParen">> [] ty = "COMMA" -> <<",", "MissingExpectedComma">>
    [] ty = "FSLASH" -> <<"/", "MissingExpectedFSlash">> [] OTHER -> <<"", "">>
\* lex_expected_token; atEof: called from finalize_lexing (the mode is already popped)
LexExpected(S, T, ty, ch, atEof) ==
  LET inf == ExpectInfo(ty)
      found == ~atEof /\ At(T, S.pos) = inf[1]
      S1 == IF found THEN Adv(S, 1) ELSE EmitErr(S, inf[2])
      S2 == Emit(S1, ch, ty)
  IN IF atEof THEN S2 ELSE Pop(S2)

\* ---------------------------------------------------------------- string expressions
\* lex_double_quoted_literal (cursor at the closing quote): replaces the StringExprStart token
LexDoubleQuotedLiteral(S, T) ==
  LET S1 == Adv(S, 1)
      en == LitEnding(T, S1.pos)
      S2 == Look(Adv(S1, en[2]), S1.pos + 2)
      \* content of the literal: from after the opening quote (token start - 1 is the quote)
      st == IF S.toks = <<>> THEN S.ts ELSE S.toks[Len(S.toks)].c
      content == SubSeq(T.cs, st + 2, S.pos)
      hex == en[1] = "HexStringLiteral"
      bad == hex /\ ~HexValid(content)
      S3 == IF bad THEN EmitErr(S2, "InvalidHexStringConstant") ELSE S2
      \* payload: the text scanned since the token start (S.ts) up to the closing quote, or the decoded hex
      pay == IF hex /\ ~bad THEN HexBytes(content) ELSE QPay(T, "\"", S.ts, S.pos)
  IN Pop(UpdateLast(S3, "DEFAULT", en[1], pay))
\* handle_unterminated_str_expr
UnterminatedStrExpr(S, atEofPopped, pay) ==
  LET S1 == IF LastTok(S) = "StringExprStart" THEN UpdateLast(S, "DEFAULT", "StringLiteral", pay)
            ELSE EmitS(S, "StringExprEnd", pay)
      S2 == EmitErr(S1, "UnterminatedStringLiteral")
  IN IF atEofPopped THEN S2 ELSE Pop(S2)
\* lex_str_expr_text
RECURSIVE StrTextLoop(_, _)
StrTextLoop(S, T) ==
  IF Eof(T, S.pos) THEN UnterminatedStrExpr([S EXCEPT !.la = TLen(T) + 1], FALSE, QPay(T, "\"", S.ts, S.pos))
  ELSE LET c == At(T, S.pos) IN
       IF c = "&" THEN
            LET am == IsMacroAmp(T, S.pos) IN
            IF am[1] THEN EmitS(Look(S, S.pos + am[2] + 1), "StringExprText", QPay(T, "\"", S.ts, S.pos))
            ELSE StrTextLoop(Adv(S, am[2]), T)
       ELSE IF c = "%" THEN
            IF IsMacroPercent(T, S.pos + 1, FALSE) THEN EmitS(Look(S, S.pos + 2), "StringExprText", QPay(T, "\"", S.ts, S.pos))
            ELSE StrTextLoop(Adv(S, 1), T)
       ELSE IF c = LF THEN StrTextLoop(AddLine(Adv(S, 1)), T)
       ELSE IF c = "\"" THEN
            IF Is1(T, S.pos + 1, "\"") THEN StrTextLoop(Adv(S, 2), T)
            ELSE IF LastTok(S) = "StringExprStart" THEN LexDoubleQuotedLiteral(S, T)
            ELSE EmitS(Look(S, S.pos + 2), "StringExprText", QPay(T, "\"", S.ts, S.pos))
       ELSE StrTextLoop(Adv(S, 1), T)

DispatchStrExpr(S0, T, allowStat) ==
  LET S == StartTok(S0)
      c == At(T, S.pos)  d == At(T, S.pos + 1)
  IN
  IF c = "\"" THEN
       IF d = "\"" THEN StrTextLoop(S, T)
       ELSE IF LastTok(S) = "StringExprStart" THEN LexDoubleQuotedLiteral(S, T)
       ELSE LET S1 == Adv(S, 1)
                en == LitEnding(T, S1.pos)
            IN Pop(EmitD(Look(Adv(S1, en[2]), S1.pos + 2), ExprEnding(en[1])))
  ELSE IF c = "&" THEN
       LET mv == LexMacroVarExpr(S, T) IN IF mv[1] THEN mv[2] ELSE StrTextLoop(mv[2], T)
  ELSE IF c = "%" THEN
       IF NsAt(T, S.pos + 1) THEN
            IF allowStat THEN LexMacroIdentifier(S, T, FALSE)
            ELSE LET S1 == LexMacroIdentifier(S, T, FALSE) IN
                 IF IsStatType(LastTok(S1)) THEN EmitErrPrepared(S1, "OpenCodeRecursionError", S) ELSE S1
       ELSE StrTextLoop(Adv(S, 1), T)
  ELSE StrTextLoop(S, T)

\* ---------------------------------------------------------------- macro expressions (MacroEval)
EvalStartTypes == {"LPAREN", "ASSIGN", "KwmIf", "KwmTo", "KwmBy", "COMMA", "KwAND", "KwOR"}
\* maybe_emit_empty_macro_string_in_eval; nextTy = "" for None
MaybeEmitEmpty(S, nextTy) ==
  LET exprEnd == nextTy \in {"", "RPAREN", "KwAND", "KwOR"}
      opFollows == nextTy # "" /\ IsLogicalOp(nextTy)
      prev == LastDef(S)
  IN IF (exprEnd \/ opFollows) /\ prev # "None" /\ (IsLogicalOp(prev) \/ prev \in EvalStartTypes)
       THEN EmitD(S, "MacroStringEmpty") ELSE S

\* lex_macro_eval_operator at the cursor (character c): <<lexed?, state>>
LexEvalOperator(S, T, c, k) ==
  LET d == At(T, S.pos + 1)
      mn == IF k = 0 /\ MnemStart(c) THEN Mnemonic(T, S.pos) ELSE <<"", 0>>
      op == CASE k = 0 /\ c = "*" -> IF d = "*" THEN <<"STAR2", 1>> ELSE <<"STAR", 0>>
              [] k = 0 /\ c = "(" -> <<"LPAREN", 0>>
              [] k = 0 /\ c = ")" -> <<"RPAREN", 0>>
              [] k = 0 /\ c = "|" -> <<"PIPE", 0>>
              [] IsNotSign(c, k) -> IF d = "=" THEN <<"NE", 1>> ELSE <<"NOT", 0>>
              [] k = 0 /\ c = "+" -> <<"PLUS", 0>>
              [] k = 0 /\ c = "-" -> <<"MINUS", 0>>
              [] k = 0 /\ c = "<" -> IF d = "=" THEN <<"LE", 1>> ELSE <<"LT", 0>>
              [] k = 0 /\ c = ">" -> IF d = "=" THEN <<"GE", 1>> ELSE <<"GT", 0>>
              [] k = 0 /\ c = "=" -> <<"ASSIGN", 0>>
              [] k = 0 /\ c = "#" -> <<"HASH", 0>>
              [] mn[1] # "" -> mn
              [] OTHER -> <<"", 0>>
  IN IF op[1] = "" THEN <<FALSE, Look(S, S.pos + 4)>>
     ELSE LET m == Top(S)
              S1 == IF op[1] = "LPAREN" /\ m.k = "MacroEval" THEN SetTop(S, [m EXCEPT !.p = @ + 1])
                    ELSE IF op[1] = "RPAREN" /\ m.k = "MacroEval" THEN
                           (IF m.p > 0 THEN SetTop(S, [m EXCEPT !.p = @ - 1]) ELSE Fault(S, "ParenUnderflow"))
                    ELSE S
              S2 == MaybeEmitEmpty(S1, op[1])
          IN <<TRUE, Push(EmitD(Look(Adv(S2, 1 + op[2]), S.pos + 4), op[1]), MWs)>>

\* is the whole text cs (a sequence of characters) one numeric literal of the macro language?
\* result: token type or "" (DESIGN.md 7.4)
WholeNumeric(cs, float) ==
  LET n == Len(cs) IN
  IF n = 0 THEN ""
  ELSE IF Up(cs[n]) = "X" /\ IsDigit(cs[1]) THEN
         \* hexadecimal: all but the last are hex digits and the value fits 64 bits
         IF n >= 2 /\ (\A i \in 1..n-1 : IsHex(cs[i])) /\ (n - 1) - (FirstNonZero(cs, 1, n) - 1) <= 16
           THEN "IntegerLiteral" ELSE ""
  ELSE IF ~(IsDigit(cs[1]) \/ (cs[1] = "." /\ n >= 2 /\ IsDigit(cs[2]))) THEN ""
  ELSE LET D == DecMatch(cs, 1) IN
       IF D.end # n + 1 THEN
            \* the float reading does not cover the text; the integer one covers only digits
            ""
       ELSE IF D.kind = "int" THEN
            (IF FitsU64Dec(DigitsOf(cs, FirstNonZero(cs, 1, n + 1), n + 1)) THEN "IntegerLiteral"
             ELSE IF float THEN "FloatLiteral" ELSE "")
       ELSE IF ~float THEN ""
       ELSE IF D.kind = "dot" THEN "FloatLiteral"
       ELSE IF D.kind = "exp" THEN "FloatExponentLiteral"
       ELSE ""

EvalStringBreakers == {"*", "(", ")", "|", "^", "~", "+", "-", "<", ">", "=", "#"}
\* lex_macro_string_in_macro_eval_context; the scanning loop returns <<state, wsMark, tryNum>>
\* wsMark: -1 = none; tn: try lexing as numeric; mm: a mnemonic may follow
RECURSIVE EvalStrLoop(_, _, _, _, _, _, _)
EvalStrLoop(S, T, fl, termComma, wsm, tn, mm) ==
  IF Eof(T, S.pos) THEN <<[S EXCEPT !.la = TLen(T) + 1], wsm, tn>>
  ELSE LET c == At(T, S.pos)  k == Cl(T, S.pos)  S1 == Adv(S, 1)
           mark == IF wsm >= 0 THEN wsm ELSE S.pos
       IN
       IF (k = 0 /\ c \in EvalStringBreakers) \/ k = 5 THEN <<S, wsm, tn>>
       ELSE IF c \in {"'", "\""} THEN <<S, 0 - 1, FALSE>>
       ELSE IF c = "/" THEN (IF Is1(T, S.pos + 1, "*") THEN <<S, 0 - 1, FALSE>> ELSE <<S, wsm, tn>>)
       ELSE IF c = ";" /\ EvTermSemi(fl) THEN <<S, wsm, tn>>
       ELSE IF c = "," /\ termComma THEN <<S, wsm, tn>>
       ELSE IF c = "&" THEN
            (IF IsMacroAmp(T, S.pos)[1] THEN <<Look(S, S.pos + AmpCount(T, S.pos) + 1), 0 - 1, FALSE>>
             ELSE <<Look(S, S.pos + AmpCount(T, S.pos) + 1), wsm, tn>>)
       ELSE IF c = "%" THEN
            (IF IsMacroPercent(T, S.pos + 1, TRUE) THEN
               (IF ~IsMacroStatAt(T, S.pos) THEN <<Look(S, MIdentEnd(T, S.pos + 1) + 1), 0 - 1, FALSE>>
                ELSE <<Look(S, MIdentEnd(T, S.pos + 1) + 1), wsm, tn>>)
             ELSE EvalStrLoop(S1, T, fl, termComma, 0 - 1, FALSE, TRUE))
       ELSE IF c = LF THEN EvalStrLoop(AddLine(S1), T, fl, termComma, mark, tn, mm)
       ELSE IF IsWs(c, k) THEN EvalStrLoop(S1, T, fl, termComma, mark, tn, mm)
       ELSE IF k = 0 /\ MnemStart(c) /\ (wsm >= 0 \/ mm) THEN
            (IF Mnemonic(T, S.pos)[1] # "" THEN <<Look(S, S.pos + 4), wsm, tn>>
             ELSE EvalStrLoop(S1, T, fl, termComma, 0 - 1, FALSE, mm))
       ELSE EvalStrLoop(S1, T, fl, termComma, 0 - 1, IF wsm >= 0 THEN FALSE ELSE tn, ~IsXidCont(c, k))
LexEvalString(S, T, fl, termComma) ==
  LET r == EvalStrLoop(S, T, fl, termComma, 0 - 1, TRUE, TRUE)
      S1 == r[1]
      wsm == r[2]
      endp == IF wsm >= 0 THEN wsm ELSE S1.pos
      txt == SubSeq(T.cs, S.ts + 1, endp)
      ascii == \A j \in S.ts..endp-1 : Cl(T, j) = 0
      num == IF r[3] /\ ascii THEN WholeNumeric(txt, EvFloat(fl)) ELSE ""
      S2a == IF endp > S.ts THEN EmitD(S1, IF num = "" THEN "MacroString" ELSE num) ELSE S1
      S2 == IF endp > S.ts /\ num = "IntegerLiteral" THEN SetPi(S2a, IntDigits(txt, 1, RefNum(txt, 1))) ELSE S2a
  IN IF wsm >= 0 THEN EmitAt(S2, "HIDDEN", "WS", wsm) ELSE S2

\* the mode for the argument that follows an expression argument
NextArgMode(fl) ==
  CASE EvNextArg(fl) = 1 -> <<MEval(EvalFlags(EvFloat(fl), 0, FALSE, FALSE, FALSE), 0)>>
    [] EvNextArg(fl) = 2 -> <<MEval(EvalFlags(EvFloat(fl), 2, FALSE, FALSE, EvPmc(fl)), 0)>>
    [] EvNextArg(fl) = 3 -> <<MCallValue(ArgFlags(0, TRUE, TRUE), 0)>>
    [] OTHER -> <<>>

DispatchMacroEval(S0, T, m) ==
  LET S == StartTok(S0)
      fl == m.n
      pnl == m.p
      termComma == EvTermComma(fl) /\ (pnl = 0 \/ ~EvPmc(fl))
      c == At(T, S.pos)  k == Cl(T, S.pos)  d == At(T, S.pos + 1)
  IN
  IF c = "'" THEN LexSingleQuoted(S, T)
  ELSE IF c = "\"" THEN LexStrExprStart(S, FALSE)
  ELSE IF c = "/" THEN
       (IF d = "*" THEN LexCStyleComment(S, T) ELSE Push(EmitD(Adv(S, 1), "FSLASH"), MWs))
  ELSE IF c = "&" THEN
       LET mv == LexMacroVarExpr(S, T) IN
       IF mv[1] THEN mv[2] ELSE Push(EmitD(EatAmps(mv[2], T), "AMP"), MWs)
  ELSE IF c = "%" THEN
       LET mc == LexMacroCall(S, T, TRUE, EvTermStat(fl)) IN
       IF mc[1] = "MacroStat" THEN
            LET S1 == Pop(MaybeEmitEmpty(mc[2], "")) IN
            IF EvTermStat(fl) /\ EvTermSemi(fl) /\ Top(S1).k = "ExpectSemiOrEOF" THEN Pop(S1) ELSE S1
       ELSE IF mc[1] = "None" THEN
            LET S1 == Adv(mc[2], 1)
                c2 == IF Eof(T, S1.pos) THEN " " ELSE At(T, S1.pos)
            IN IF QuotableOp(c2) /\ Cl(T, S1.pos) = 0 THEN LexEvalOperator(S1, T, c2, 0)[2]
               ELSE LexEvalString(S1, T, fl, termComma)
       ELSE mc[2]
  ELSE IF c = ")" /\ pnl = 0 THEN Pop(MaybeEmitEmpty(S, ""))
  ELSE IF c = "," /\ termComma THEN
       LET S1 == PushAll(Pop(MaybeEmitEmpty(S, "")), NextArgMode(fl)) IN
       Push(EmitD(Adv(S1, 1), "COMMA"), MWs)
  ELSE IF c = ";" /\ EvTermSemi(fl) THEN Pop(MaybeEmitEmpty(S, ""))
  ELSE LET op == LexEvalOperator(S, T, c, k) IN
       IF op[1] THEN op[2] ELSE LexEvalString(op[2], T, fl, termComma)

\* ---------------------------------------------------------------- name expressions
DispatchNameExpr(S0, T, m) ==
  LET S == StartTok(S0)
      first == m.n = 0
      err == m.a
      idx == Len(S.modes)
      c == At(T, S.pos)  k == Cl(T, S.pos)
      PopCheck(X) == Pop(IF first /\ err # "" THEN EmitErr(X, err) ELSE X)
      Upd(X) == IF ~first THEN X
                ELSE IF idx <= Len(X.modes) /\ X.modes[idx].k = "MacroNameExpr"
                       THEN [X EXCEPT !.modes[idx] = MNameExpr(TRUE, err)]
                       ELSE EmitErr(Fault(X, "UnexpectedModeStack"), "InternalErrorUnexpectedModeStack")
  IN
  IF c = "/" /\ Is1(T, S.pos + 1, "*") THEN LexCStyleComment(S, T)
  ELSE IF c = "&" THEN
       LET mv == LexMacroVarExpr(S, T) IN IF mv[1] THEN Upd(mv[2]) ELSE PopCheck(mv[2])
  ELSE IF c = "%" THEN
       LET mc == LexMacroCall(S, T, FALSE, FALSE) IN
       IF mc[1] = "MacroCall" THEN Upd(mc[2]) ELSE PopCheck(mc[2])
  ELSE IF IsNameStart(c, k) \/ (~first /\ IsXidCont(c, k)) THEN
       LET e == NameEnd(T.cs, T.cc, S.pos + 1) - 1 IN
       Upd(EmitD(Look([S EXCEPT !.pos = e], e + 1), "MacroString"))
  ELSE PopCheck(S)

\* ---------------------------------------------------------------- text expressions of statements
\* lex_macro_string_unrestricted
RECURSIVE UnrestrictedLoop(_, _)
UnrestrictedLoop(S, T) ==
  IF Eof(T, S.pos) THEN EmitD([S EXCEPT !.la = TLen(T) + 1], "MacroString")
  ELSE LET c == At(T, S.pos) IN
       IF c \in {"'", "\""} THEN EmitD(S, "MacroString")
       ELSE IF c = "/" /\ Is1(T, S.pos + 1, "*") THEN EmitD(S, "MacroString")
       ELSE IF c = "&" THEN
            (LET am == IsMacroAmp(T, S.pos) IN
             IF am[1] THEN EmitD(Look(S, S.pos + am[2] + 1), "MacroString") ELSE UnrestrictedLoop(Adv(S, am[2]), T))
       ELSE IF c = "%" THEN
            (IF IsMacroPercent(T, S.pos + 1, FALSE) THEN EmitD(Look(S, S.pos + 2), "MacroString")
             ELSE UnrestrictedLoop(Adv(S, 1), T))
       ELSE IF c = LF THEN UnrestrictedLoop(AddLine(Adv(S, 1)), T)
       ELSE IF c = ";" THEN Pop(EmitD(S, "MacroString"))
       ELSE UnrestrictedLoop(Adv(S, 1), T)
LexUnrestricted(S, T) ==
  IF Top(S).k # "MacroSemiTerminatedTextExpr" THEN Fault(UnrestrictedLoop(S, T), "WrongModeForScanner")
  ELSE UnrestrictedLoop(S, T)

DispatchSemiTermText(S0, T) ==
  LET S == StartTok(S0)
      c == At(T, S.pos)
  IN
  IF c = "'" THEN LexSingleQuoted(S, T)
  ELSE IF c = "\"" THEN LexStrExprStart(S, FALSE)
  ELSE IF c = "/" THEN
       (IF Is1(T, S.pos + 1, "*") THEN LexCStyleComment(S, T) ELSE LexUnrestricted(Adv(S, 1), T))
  ELSE IF c = "&" THEN
       (LET mv == LexMacroVarExpr(S, T) IN IF mv[1] THEN mv[2] ELSE LexUnrestricted(EatAmps(mv[2], T), T))
  ELSE IF c = "%" THEN
       (LET mc == LexMacroCall(S, T, TRUE, FALSE) IN
        IF mc[1] = "MacroStat" THEN Pop(mc[2])
        ELSE IF mc[1] = "None" THEN LexUnrestricted(Adv(mc[2], 1), T)
        ELSE mc[2])
  ELSE IF c = LF THEN LexUnrestricted(AddLine(Adv(S, 1)), T)
  ELSE IF c = ";" THEN Pop(S)
  ELSE LexUnrestricted(Adv(S, 1), T)

\* lex_macro_string_stat_opts
RECURSIVE StatOptsLoop(_, _)
StatOptsLoop(S, T) ==
  IF Eof(T, S.pos) THEN EmitD([S EXCEPT !.la = TLen(T) + 1], "MacroString")
  ELSE LET c == At(T, S.pos)  k == Cl(T, S.pos) IN
       IF c \in {"'", "\"", "/", "="} THEN EmitD(S, "MacroString")
       ELSE IF IsWs(c, k) THEN EmitD(S, "MacroString")
       ELSE IF c = "&" THEN
            (LET am == IsMacroAmp(T, S.pos) IN
             IF am[1] THEN EmitD(Look(S, S.pos + am[2] + 1), "MacroString") ELSE StatOptsLoop(Adv(S, am[2]), T))
       ELSE IF c = "%" THEN
            (IF IsMacroPercent(T, S.pos + 1, FALSE) THEN EmitD(Look(S, S.pos + 2), "MacroString")
             ELSE StatOptsLoop(Adv(S, 1), T))
       ELSE IF c = ";" THEN Pop(EmitD(S, "MacroString"))
       ELSE StatOptsLoop(Adv(S, 1), T)

DispatchStatOpts(S0, T) ==
  LET S == StartTok(S0)
      c == At(T, S.pos)  k == Cl(T, S.pos)
  IN
  IF c = "'" THEN LexSingleQuoted(S, T)
  ELSE IF c = "\"" THEN LexStrExprStart(S, FALSE)
  ELSE IF c = "/" THEN
       (IF Is1(T, S.pos + 1, "*") THEN LexCStyleComment(S, T) ELSE EmitD(Adv(S, 1), "FSLASH"))
  ELSE IF c = "&" THEN
       (LET mv == LexMacroVarExpr(S, T) IN IF mv[1] THEN mv[2] ELSE StatOptsLoop(EatAmps(mv[2], T), T))
  ELSE IF c = "%" THEN
       (LET mc == LexMacroCall(S, T, TRUE, FALSE) IN
        IF mc[1] = "MacroStat" THEN Pop(mc[2])
        ELSE IF mc[1] = "None" THEN StatOptsLoop(Adv(mc[2], 1), T)
        ELSE mc[2])
  ELSE IF c = ";" THEN Pop(S)
  ELSE IF IsWs(c, k) THEN LexWs(S, T)
  ELSE IF c = "=" THEN EmitD(Adv(S, 1), "ASSIGN")
  ELSE StatOptsLoop(Adv(S, 1), T)

\* ---------------------------------------------------------------- macro calls: arguments
NewArgMode(fl) ==
  CASE FCtx(fl) = 1 -> MArgOrValue(fl)
    [] FCtx(fl) = 2 -> M0("MacroDefArg")
    [] OTHER -> MCallValue(fl, 0)
\* the ',' that ends an argument: token plus the modes of the next argument
NextArgComma(S, fl) ==
  IF FPopulate(fl) THEN PushAll(EmitD(Adv(StartTok(S), 1), "COMMA"), <<NewArgMode(fl), MWs>>) ELSE S

\* insert_token at (1-based) index i
InsertTok(S, i, tok) == [S EXCEPT !.toks = SubSeq(@, 1, i - 1) \o <<tok>> \o SubSeq(@, i, Len(@))]

DispatchMaybeArgsOrLabel(S, T, checkLabel) ==
  LET c == At(T, S.pos) IN
  IF c = "(" THEN
       PushAll(Pop(ClearCk(EmitD(Adv(StartTok(S), 1), "LPAREN"))),
               <<MExpect("RPAREN", "DEFAULT"), MArgOrValue(ArgFlags(1, TRUE, TRUE)), MWs>>)
  ELSE IF c = ":" /\ checkLabel THEN
       LET li == LastDefIdx(S.toks, Len(S.toks))
           okl == li > 0 /\ S.toks[li].ty = "MacroIdentifier"
           S1 == IF okl THEN [S EXCEPT !.toks[li].ty = "MacroLabel"]
                 ELSE EmitErr(Fault(S, "NoTokenToReplace"), "InternalErrorNoTokenToReplace")
           li1 == LastDefIdx(S1.toks, Len(S1.toks))
           pi == IF li1 > 0 THEN LastDefIdx(S1.toks, li1 - 1) ELSE 0
           prevTy == IF pi > 0 THEN S1.toks[pi].ty ELSE "None"
           S2 == IF S.sep /\ li1 > 0 /\ NeedsMacroSep(prevTy, S1.toks[li1].ty)
                   THEN InsertTok(S1, li1, Tk("MacroSep", "DEFAULT", S1.toks[li1].c, S1.toks[li1].l))
                   ELSE S1
       IN Pop(ClearCk(Emit(Adv(StartTok(S2), 1), "HIDDEN", "COLON")))
  ELSE Rollback(S)

DispatchMaybeAssign(S0, T, fl) ==
  LET S == Pop(S0) IN
  IF Is1(T, S.pos, "=") THEN
       PushAll(ClearCk(EmitD(Adv(StartTok(S), 1), "ASSIGN")), <<MCallValue(fl, 0), MWs>>)
  ELSE Push(Rollback(S), MCallValue(fl, 0))

DispatchMaybeTail(S0, T) ==
  LET S == Pop(S0) IN
  IF Is1(T, S.pos, ",") THEN
       PushAll(EmitD(Adv(StartTok(S), 1), "COMMA"), <<MCallValue(ArgFlags(0, FALSE, FALSE), 0), MWs>>)
  ELSE S

InsertModes(S, at, ms) ==     \* modes ms (bottom first) inserted above the first `at` modes
  [S EXCEPT !.modes = SubSeq(@, 1, at) \o ms \o SubSeq(@, at + 1, Len(@))]

DispatchArgOrValue(S0, T, fl) ==
  LET S == StartTok(S0)
      c == At(T, S.pos)  k == Cl(T, S.pos)  d == At(T, S.pos + 1)
      SwitchToValue(X) == Push(IF X.ck.set THEN Rollback(X) ELSE Pop(X), MCallValue(fl, 0))
      PushCheckAssign(X) == PushAll(IF X.ck.set THEN X ELSE Checkpoint(X), <<MMaybeAssign(fl), MWs>>)
      SafePop(X) == Pop(ClearCk(X))
      first == LastTok(S) \notin {"MacroVarTerm", "MacroIdentifier", "MacroString", "RPAREN"}
  IN
  IF c = "/" THEN (IF d = "*" THEN PushCheckAssign(S) ELSE SwitchToValue(S))
  ELSE IF c = "&" THEN
       (LET mv == LexMacroVarExpr(S, T) IN IF mv[1] THEN ClearCk(mv[2]) ELSE SwitchToValue(mv[2]))
  ELSE IF c = "%" THEN
       (IF d = "*" THEN LexMacroComment(S, T)
        ELSE IF NsAt(T, S.pos + 1) THEN
             LET S1 == ClearCk(S)
                 ml == Len(S1.modes)
                 S2 == LexMacroIdentifier(S1, T, FALSE)
             IN IF IsStatType(LastTok(S2)) THEN S2
                ELSE InsertModes(S2, ml, <<MMaybeAssign(fl), MWs, M0("MakeCheckpoint")>>)
        ELSE SwitchToValue(Look(S, S.pos + 2)))
  ELSE IF c = "," /\ FTermComma(fl) THEN NextArgComma(SafePop(S), fl)
  ELSE IF c = ")" THEN SafePop(S)
  ELSE IF IsWs(c, k) THEN PushCheckAssign(S)
  ELSE IF IsNameStart(c, k) \/ (~first /\ IsXidCont(c, k)) THEN
       LET S1 == IF S.ck.set THEN S ELSE Checkpoint(S)
           e == NameEnd(T.cs, T.cc, S.pos + 1) - 1
       IN EmitD(Look([S1 EXCEPT !.pos = e], e + 1), "MacroString")
  ELSE IF c = "=" /\ ~first THEN
       PushAll(SafePop(EmitD(Adv(S, 1), "ASSIGN")), <<MCallValue(fl, 0), MWs>>)
  ELSE SwitchToValue(S)

\* lex_macro_string_in_macro_call_arg_value; ln = local parenthesis nesting
EmitUpdNesting(S, ln) ==
  LET S1 == EmitD(S, "MacroString")  m == Top(S1) IN
  IF ln = 0 THEN S1
  ELSE IF m.p + ln < 0 THEN Fault(S1, "ParenUnderflow")
  ELSE SetTop(S1, [m EXCEPT !.p = @ + ln])
RECURSIVE CallValueLoop(_, _, _, _, _)
CallValueLoop(S, T, fl, pnl, ln) ==
  IF Eof(T, S.pos) THEN EmitUpdNesting([S EXCEPT !.la = TLen(T) + 1], ln)
  ELSE LET c == At(T, S.pos) IN
       IF c \in {"'", "\""} THEN EmitUpdNesting(S, ln)
       ELSE IF c = "/" /\ Is1(T, S.pos + 1, "*") THEN EmitUpdNesting(S, ln)
       ELSE IF c = "&" THEN
            (LET am == IsMacroAmp(T, S.pos) IN
             IF am[1] THEN EmitUpdNesting(Look(S, S.pos + am[2] + 1), ln)
             ELSE CallValueLoop(Adv(S, am[2]), T, fl, pnl, ln))
       ELSE IF c = "%" THEN
            (IF IsMacroPercent(T, S.pos + 1, FALSE) THEN EmitUpdNesting(Look(S, S.pos + 2), ln)
             ELSE CallValueLoop(Adv(S, 1), T, fl, pnl, ln))
       ELSE IF c = LF THEN CallValueLoop(AddLine(Adv(S, 1)), T, fl, pnl, ln)
       ELSE IF c = "(" THEN CallValueLoop(Adv(S, 1), T, fl, pnl, ln + 1)
       ELSE IF c = ")" /\ pnl + ln # 0 THEN CallValueLoop(Adv(S, 1), T, fl, pnl, ln - 1)
       ELSE IF c = ")" THEN Pop(EmitD(S, "MacroString"))
       ELSE IF c = "," /\ pnl + ln = 0 /\ FTermComma(fl) THEN NextArgComma(Pop(EmitD(S, "MacroString")), fl)
       ELSE CallValueLoop(Adv(S, 1), T, fl, pnl, ln)

DispatchCallValue(S0, T, m) ==
  LET S == StartTok(S0)
      fl == m.n  pnl == m.p
      c == At(T, S.pos)  d == At(T, S.pos + 1)
  IN
  IF c = "'" THEN LexSingleQuoted(S, T)
  ELSE IF c = "\"" THEN LexStrExprStart(S, TRUE)
  ELSE IF c = "/" THEN
       (IF d = "*" THEN LexCStyleComment(S, T) ELSE CallValueLoop(Adv(S, 1), T, fl, pnl, 0))
  ELSE IF c = "&" THEN
       (LET mv == LexMacroVarExpr(S, T) IN
        IF mv[1] THEN mv[2] ELSE CallValueLoop(EatAmps(mv[2], T), T, fl, pnl, 0))
  ELSE IF c = "%" THEN
       (IF d = "*" THEN LexMacroComment(S, T)
        ELSE IF NsAt(T, S.pos + 1) THEN LexMacroIdentifier(S, T, FALSE)
        ELSE CallValueLoop(Adv(Look(S, S.pos + 2), 1), T, fl, pnl, 0))
  ELSE IF c = LF THEN CallValueLoop(AddLine(Adv(S, 1)), T, fl, pnl, 0)
  ELSE IF c = "," /\ pnl = 0 /\ FTermComma(fl) THEN NextArgComma(Pop(S), fl)
  ELSE IF c = ")" /\ pnl = 0 THEN Pop(S)
  ELSE CallValueLoop(S, T, fl, pnl, 0)

\* ---------------------------------------------------------------- macro definitions
RECURSIVE AsciiNameEnd(_, _)
AsciiNameEnd(T, i) == IF AncAt(T, i) THEN AsciiNameEnd(T, i + 1) ELSE i
DispatchMaybeDefArgs(S0, T) ==
  LET S == Pop(S0) IN
  IF Is1(T, S.pos, "(") THEN
       PushAll(EmitD(Adv(StartTok(S), 1), "LPAREN"), <<MExpect("RPAREN", "DEFAULT"), M0("MacroDefArg"), MWs>>)
  ELSE S
DispatchDefArg(S0, T) ==
  IF Is1(T, S0.pos, ")") THEN Pop(S0)
  ELSE LET S == StartTok(S0) IN
       IF AnsAt(T, S.pos) THEN
            LET e == AsciiNameEnd(T, S.pos + 1) IN
            PushAll(Pop(EmitD(Look([S EXCEPT !.pos = e], e + 1), "Identifier")),
                    <<M0("MacroDefNextArgOrDefaultValue"), MWs>>)
       ELSE Push(Pop(EmitErr(S, "InvalidMacroDefArgName")), MArgOrValue(ArgFlags(2, TRUE, TRUE)))
DispatchDefNextArg(S0, T) ==
  LET S == Pop(S0)  c == At(T, S.pos) IN
  IF c = "=" THEN PushAll(EmitD(Adv(StartTok(S), 1), "ASSIGN"), <<MCallValue(ArgFlags(2, TRUE, TRUE), 0), MWs>>)
  ELSE IF c = "," THEN PushAll(EmitD(Adv(StartTok(S), 1), "COMMA"), <<M0("MacroDefArg"), MWs>>)
  ELSE S
DispatchDefName(S0, T) ==
  LET S == StartTok(S0) IN
  IF AnsAt(T, S.pos) THEN
       LET e == AsciiNameEnd(T, S.pos + 1) IN Pop(EmitD(Look([S EXCEPT !.pos = e], e + 1), "Identifier"))
  ELSE Pop(EmitErr(S, "InvalidMacroDefName"))

\* ---------------------------------------------------------------- %str / %nrstr
StrQuotChars == {"\"", "'", "%", "(", ")"}
\* payload of %str/%nrstr text: T[ts..ss) was consumed by the dispatcher, %-pairs are scanned from ss
StrPay(S, T) == LET r == PScan(T, S.ss, S.pos, FALSE, SumW(T, S.ts, S.ss)) IN IF r[1] THEN r[2] ELSE 0 - 1
EmitUpdNestingStr(S, T, ln) ==
  LET S1 == EmitS(S, "MacroString", StrPay(S, T))  m == Top(S1) IN
  IF ln = 0 THEN S1
  ELSE IF m.p + ln < 0 THEN Fault(S1, "ParenUnderflow")
  ELSE SetTop(S1, [m EXCEPT !.p = @ + ln])
RECURSIVE StrCallLoop(_, _, _, _, _)
StrCallLoop(S, T, mask, pnl, ln) ==
  IF Eof(T, S.pos) THEN EmitUpdNestingStr([S EXCEPT !.la = TLen(T) + 1], T, ln)
  ELSE LET c == At(T, S.pos) IN
       IF c \in {"'", "\""} THEN EmitUpdNestingStr(S, T, ln)
       ELSE IF c = "/" /\ Is1(T, S.pos + 1, "*") THEN EmitUpdNestingStr(S, T, ln)
       ELSE IF c = "&" /\ ~mask THEN
            (LET am == IsMacroAmp(T, S.pos) IN
             IF am[1] THEN EmitUpdNestingStr(Look(S, S.pos + am[2] + 1), T, ln)
             ELSE StrCallLoop(Adv(S, am[2]), T, mask, pnl, ln))
       ELSE IF c = "%" THEN
            (IF At(T, S.pos + 1) \in StrQuotChars /\ ~Eof(T, S.pos + 1) THEN StrCallLoop(Adv(S, 2), T, mask, pnl, ln)
             ELSE IF ~mask /\ IsMacroPercent(T, S.pos + 1, FALSE) THEN EmitUpdNestingStr(Look(S, S.pos + 2), T, ln)
             ELSE StrCallLoop(Adv(S, 1), T, mask, pnl, ln))
       ELSE IF c = LF THEN StrCallLoop(AddLine(Adv(S, 1)), T, mask, pnl, ln)
       ELSE IF c = "(" THEN StrCallLoop(Adv(S, 1), T, mask, pnl, ln + 1)
       ELSE IF c = ")" /\ pnl + ln # 0 THEN StrCallLoop(Adv(S, 1), T, mask, pnl, ln - 1)
       ELSE IF c = ")" THEN Pop(EmitS(S, "MacroString", StrPay(S, T)))
       ELSE StrCallLoop(Adv(S, 1), T, mask, pnl, ln)

SS(S) == [S EXCEPT !.ss = S.pos]      \* the scanner starts here (what precedes was consumed by the dispatcher)
DispatchStrQuoted(S0, T, m) ==
  LET S == StartTok(S0)
      mask == m.n = 1  pnl == m.p
      c == At(T, S.pos)  d == At(T, S.pos + 1)
  IN
  IF c = "'" THEN LexSingleQuoted(S, T)
  ELSE IF c = "\"" THEN LexStrExprStart(S, TRUE)
  ELSE IF c = "/" THEN
       (IF d = "*" THEN LexCStyleComment(S, T) ELSE StrCallLoop(SS(Adv(S, 1)), T, mask, pnl, 0))
  ELSE IF c = "&" /\ ~mask THEN
       (LET mv == LexMacroVarExpr(S, T) IN
        IF mv[1] THEN mv[2] ELSE StrCallLoop(SS(EatAmps(mv[2], T)), T, mask, pnl, 0))
  ELSE IF c = "%" /\ ~mask THEN
       (IF d \in StrQuotChars /\ ~Eof(T, S.pos + 1) THEN StrCallLoop(SS(S), T, mask, pnl, 0)
        ELSE IF NsAt(T, S.pos + 1) THEN LexMacroIdentifier(S, T, FALSE)
        ELSE StrCallLoop(SS(Adv(Look(S, S.pos + 2), 1)), T, mask, pnl, 0))
  ELSE IF c = LF THEN StrCallLoop(SS(AddLine(Adv(S, 1))), T, mask, pnl, 0)
  ELSE IF c = ")" /\ pnl = 0 THEN Pop(S)
  ELSE StrCallLoop(SS(S), T, mask, pnl, 0)

\* ---------------------------------------------------------------- %do, %local / %global
DispatchMacroDo(S0, T) ==
  LET S00 == IF LastDef(S0) = "KwmDo" THEN S0 ELSE Fault(S0, "MacroDoWithoutDo")
      S == Pop(S00)
      c == At(T, S.pos)
  IN
  IF c = ";" THEN Push(EmitD(Adv(StartTok(S), 1), "SEMI"), MWs)
  ELSE IF c = "%" /\ NsAt(T, S.pos + 1) THEN
       LET ml == Len(S.modes)
           S1 == LexMacroIdentifier(StartTok(S), T, FALSE)
       IN IF LastTok(S1) \in {"KwmUntil", "KwmWhile"} THEN S1
          ELSE LET S2 == InsertModes(S1, ml, TplDoIter(TRUE, ""))
               IN IF S2.ck.set THEN [S2 EXCEPT !.ck.ml = @ + 5] ELSE S2
  ELSE PushAll(Look(S, S.pos + 2), TplDoIter(FALSE, "UnexpectedSemiInDoLoop"))

DispatchLocalGlobal(S0, T, isLocal) ==
  LET S == Pop(S0) IN
  IF Is1(T, S.pos, "/") THEN
       PushAll(EmitD(Adv(StartTok(S), 1), "FSLASH"),
               TplLet("InvalidMacroLocalGlobalReadonlyVarName") \o
               <<MNameExpr(FALSE, IF isLocal THEN "MissingMacroLocalReadonlyKw" ELSE "MissingMacroGlobalReadonlyKw"), MWs>>)
  ELSE PushAll(S, <<MExpectSemi, M0("MacroStatOptionsTextExpr")>>)

\* ---------------------------------------------------------------- the step: lex_token
LexToken(S, T) ==
  LET m == Top(S)
      c == At(T, S.pos)  k == Cl(T, S.pos)
  IN
  CASE m.k = "WsOrCStyleCommentOnly" ->
         IF c = "/" /\ Is1(T, S.pos + 1, "*") THEN LexCStyleComment(StartTok(S), T)
         ELSE IF IsWs(c, k) THEN LexWs(StartTok(S), T)
         ELSE Pop(Look(S, S.pos + 2))
    [] m.k = "MakeCheckpoint" -> Checkpoint(Pop(S))
    [] m.k = "Default" -> DispatchDefault(S, T)
    [] m.k = "ExpectSymbol" -> LexExpected(StartTok(S), T, m.a, m.b, FALSE)
    [] m.k = "ExpectSemiOrEOF" ->
         LET S1 == StartTok(S)
             S2 == IF c = ";" THEN Adv(S1, 1) ELSE EmitErr(S1, "MissingExpectedSemiOrEOF")
         IN Pop(EmitD(S2, "SEMI"))
    [] m.k = "StringExpr" -> DispatchStrExpr(S, T, m.n = 1)
    [] m.k = "MacroEval" -> DispatchMacroEval(S, T, m)
    [] m.k = "MacroStrQuotedExpr" -> DispatchStrQuoted(S, T, m)
    [] m.k = "MaybeMacroCallArgsOrLabel" -> DispatchMaybeArgsOrLabel(S, T, m.n = 1)
    [] m.k = "MaybeMacroCallArgAssign" -> DispatchMaybeAssign(S, T, m.n)
    [] m.k = "MaybeTailMacroArgValue" -> DispatchMaybeTail(S, T)
    [] m.k = "MacroCallArgOrValue" -> DispatchArgOrValue(S, T, m.n)
    [] m.k = "MacroCallValue" -> DispatchCallValue(S, T, m)
    [] m.k = "MaybeMacroDefArgs" -> DispatchMaybeDefArgs(S, T)
    [] m.k = "MacroDefArg" -> DispatchDefArg(S, T)
    [] m.k = "MacroDefNextArgOrDefaultValue" -> DispatchDefNextArg(S, T)
    [] m.k = "MacroDo" -> DispatchMacroDo(S, T)
    [] m.k = "MacroLocalGlobal" -> DispatchLocalGlobal(S, T, m.n = 1)
    [] m.k = "MacroNameExpr" -> DispatchNameExpr(S, T, m)
    [] m.k = "MacroSemiTerminatedTextExpr" -> DispatchSemiTermText(S, T)
    [] m.k = "MacroStatOptionsTextExpr" -> DispatchStatOpts(S, T)
    [] m.k = "MacroDefName" -> DispatchDefName(S, T)
    [] OTHER -> Fault(S, "UnknownMode")

\* one iteration of the main loop (the operations of the previous step are forgotten)
Step(S, T) == LexToken([S EXCEPT !.ops = <<>>], T)

\* ---------------------------------------------------------------- finalize_lexing
RECURSIVE EmitN(_, _, _)
EmitN(S, ty, n) == IF n <= 0 THEN S ELSE EmitN(EmitD(S, ty), ty, n - 1)
\* one turn of the unwinding loop: pop a mode and finalize it
FinalizeStep(S0, T) ==
  LET m == Top(S0)
      S == StartTok([S0 EXCEPT !.modes = SubSeq(@, 1, Len(@) - 1), !.ops = <<>>])
  IN
  CASE m.k = "ExpectSymbol" -> LexExpected(S, T, m.a, m.b, TRUE)
    [] m.k \in {"ExpectSemiOrEOF", "MacroDo"} -> EmitD(S, "SEMI")
    [] m.k \in {"MacroStrQuotedExpr", "MacroCallValue", "MacroEval"} ->
         IF m.p > 0 THEN EmitN(EmitErr(S, "MissingExpectedRParen"), "RPAREN", m.p) ELSE S
    [] m.k = "StringExpr" -> UnterminatedStrExpr(S, FALSE, 0 - 1)   \* pops one more mode, like the code
    [] m.k = "MacroNameExpr" -> IF m.a # "" THEN EmitErr(S, m.a) ELSE S
    [] m.k = "MacroDefName" -> EmitErr(S, "InvalidMacroDefName")
    [] OTHER -> S
\* the final EOF token
EofStep(S) == EmitAt([S EXCEPT !.ops = <<>>], "DEFAULT", "EOF", S.pos)

\* the whole run on a closed text, for the model checker's history-free uses
RECURSIVE RunLex(_, _, _)
RunLex(S, T, fuel) ==
  IF fuel = 0 THEN Fault(S, "OutOfFuel")
  ELSE IF ~Eof(T, S.pos) THEN RunLex(Step(S, T), T, fuel - 1)
  ELSE IF S.modes # <<>> THEN RunLex(FinalizeStep(S, T), T, fuel - 1)
  ELSE EofStep(S)
=============================================================================
