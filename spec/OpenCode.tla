------------------------------ MODULE OpenCode ------------------------------
(***************************************************************************)
(* C11: the declarative longest-match reference lexer for macro-free open  *)
(* code (DESIGN.md 7.3).  Written from the grammar, not from the           *)
(* operational model: a function from a classified text to the token and   *)
(* error lists.                                                            *)
(*                                                                         *)
(* Tokens: [ty, ch, s, e] with s/e character positions (0-based, end       *)
(* exclusive).  Errors: [k, at, lt] (kind, character position, index of    *)
(* the last token, 0-based).                                               *)
(***************************************************************************)
EXTENDS Rel

\* ---- domain: no macro triggers ------------------------------------------
RECURSIVE AmpRunEnd(_, _)
AmpRunEnd(cs, i) == IF i <= Len(cs) /\ cs[i] = "&" THEN AmpRunEnd(cs, i + 1) ELSE i
MacroFree(cs, cc) ==
  \A i \in 1..Len(cs) :
     /\ (cs[i] = "%" /\ i < Len(cs)) => ~(IsNameStart(cs[i+1], cc[i+1]) \/ cs[i+1] = "*")
     /\ (cs[i] = "&") => LET j == AmpRunEnd(cs, i) IN ~(j <= Len(cs) /\ IsNameStart(cs[j], cc[j]))

\* ---- scanners: each returns the index just after what it matches --------
RECURSIVE WsEnd(_, _, _)
WsEnd(cs, cc, i) == IF i <= Len(cs) /\ IsWs(cs[i], cc[i]) THEN WsEnd(cs, cc, i + 1) ELSE i

\* index of the first "*/" at or after i (index of the '*'), 0 if none
RECURSIVE CommentClose(_, _)
CommentClose(cs, i) ==
  IF i + 1 > Len(cs) THEN 0
  ELSE IF cs[i] = "*" /\ cs[i+1] = "/" THEN i ELSE CommentClose(cs, i + 1)

\* index of the closing quote of a literal whose content starts at i; 0 if unterminated
RECURSIVE QuoteClose(_, _, _)
QuoteClose(cs, q, i) ==
  IF i > Len(cs) THEN 0
  ELSE IF cs[i] # q THEN QuoteClose(cs, q, i + 1)
  ELSE IF i + 1 <= Len(cs) /\ cs[i+1] = q THEN QuoteClose(cs, q, i + 2)
  ELSE i

\* literal type and suffix length from the characters after the closing quote at index c
LitKind(cs, c) ==
  LET n == Len(cs)
      s1 == IF c + 1 <= n THEN Up(cs[c+1]) ELSE ""
      s2 == IF c + 2 <= n THEN Up(cs[c+2]) ELSE ""
  IN CASE s1 = "B" -> <<"BitTestingLiteral", 1>>
       [] s1 = "D" /\ s2 = "T" -> <<"DateTimeLiteral", 2>>
       [] s1 = "D" -> <<"DateLiteral", 1>>
       [] s1 = "N" -> <<"NameLiteral", 1>>
       [] s1 = "T" -> <<"TimeLiteral", 1>>
       [] s1 = "X" -> <<"HexStringLiteral", 1>>
       [] OTHER -> <<"StringLiteral", 0>>

RECURSIVE NameEnd(_, _, _)
NameEnd(cs, cc, i) == IF i <= Len(cs) /\ IsXidCont(cs[i], cc[i]) THEN NameEnd(cs, cc, i + 1) ELSE i

RECURSIVE FirstSemi(_, _)     \* index of the first ';' at or after i; Len+1 if none
FirstSemi(cs, i) == IF i > Len(cs) THEN i ELSE IF cs[i] = ";" THEN i ELSE FirstSemi(cs, i + 1)

RECURSIVE FirstSemi4(_, _)    \* index of the first ";;;;" at or after i; 0 if none
FirstSemi4(cs, i) ==
  IF i + 3 > Len(cs) THEN 0
  ELSE IF cs[i] = ";" /\ cs[i+1] = ";" /\ cs[i+2] = ";" /\ cs[i+3] = ";" THEN i
  ELSE FirstSemi4(cs, i + 1)

\* character format after '$' at index p: index after the format, 0 if it is not one
CharFormatEnd(cs, cc, p) ==
  LET n == Len(cs)
      a == IF p + 1 <= n /\ IsNameStart(cs[p+1], cc[p+1]) THEN NameEnd(cs, cc, p + 2) ELSE p + 1
      b == RunEnd(cs, a, Digits)
  IN IF b <= n /\ cs[b] = "." THEN RunEnd(cs, b + 1, Digits) ELSE 0

DatalinesKw1 == {"DATALINES", "CARDS", "LINES"}
DatalinesKw4 == {"DATALINES4", "CARDS4", "LINES4"}

\* two-character and one-character symbols at index p: <<type, length>>
SymbolAt(cs, cc, p) ==
  LET n == Len(cs)
      c == cs[p]
      k == cc[p]
      d == IF p + 1 <= n THEN cs[p+1] ELSE ""
      dk == IF p + 1 <= n THEN cc[p+1] ELSE 0
  IN CASE k = 0 /\ c = "*" -> IF d = "*" THEN <<"STAR2", 2>> ELSE <<"STAR", 1>>
       [] k = 0 /\ c = "(" -> <<"LPAREN", 1>> [] k = 0 /\ c = ")" -> <<"RPAREN", 1>>
       [] k = 0 /\ c = "{" -> <<"LCURLY", 1>> [] k = 0 /\ c = "}" -> <<"RCURLY", 1>>
       [] k = 0 /\ c = "[" -> <<"LBRACK", 1>> [] k = 0 /\ c = "]" -> <<"RBRACK", 1>>
       [] k = 0 /\ c = "!" -> IF d = "!" THEN <<"EXCL2", 2>> ELSE <<"EXCL", 1>>
       [] k = 6 -> IF dk = 6 THEN <<"BPIPE2", 2>> ELSE <<"BPIPE", 1>>
       [] k = 0 /\ c = "|" -> IF d = "|" THEN <<"PIPE2", 2>> ELSE <<"PIPE", 1>>
       [] IsNotSignOC(c, k) -> IF d = "=" THEN <<"NE", 2>> ELSE <<"NOT", 1>>
       [] k = 0 /\ c = "+" -> <<"PLUS", 1>> [] k = 0 /\ c = "-" -> <<"MINUS", 1>>
       [] k = 0 /\ c = "<" -> IF d = "=" THEN <<"LE", 2>> ELSE IF d = ">" THEN <<"LTGT", 2>> ELSE <<"LT", 1>>
       [] k = 0 /\ c = ">" -> IF d = "=" THEN <<"GE", 2>> ELSE IF d = "<" THEN <<"GTLT", 2>> ELSE <<"GT", 1>>
       [] k = 0 /\ c = "." -> <<"DOT", 1>>
       [] k = 0 /\ c = "," -> <<"COMMA", 1>> [] k = 0 /\ c = ":" -> <<"COLON", 1>>
       [] k = 0 /\ c = "=" -> IF d = "*" THEN <<"SoundsLike", 2>> ELSE <<"ASSIGN", 1>>
       [] k = 0 /\ c = "@" -> <<"AT", 1>> [] k = 0 /\ c = "#" -> <<"HASH", 1>>
       [] k = 0 /\ c = "?" -> <<"QUESTION", 1>>
       [] k = 0 /\ c = "/" -> <<"FSLASH", 1>>
       [] k = 0 /\ c = "%" -> <<"PERCENT", 1>>
       [] OTHER -> <<"CatchAll", 1>>

Tok(ty, ch, s, e) == [ty |-> ty, ch |-> ch, s |-> s, e |-> e]
Err(k, at, lt) == [k |-> k, at |-> at, lt |-> lt]

\* ---- the reference lexer -------------------------------------------------
\* p: 1-based index of the next character; pend: a statement is pending;
\* pd: type of the previous default-channel token ("None" at the start)
RECURSIVE OC(_, _, _, _, _, _, _)
OC(cs, cc, p, pend, pd, toks, errs) ==
  LET n == Len(cs)
      nt == Len(toks)          \* index (0-based) of the token about to be emitted
  IN
  IF p > n THEN [toks |-> Append(toks, Tok("EOF", "DEFAULT", n, n)), errs |-> errs]
  ELSE
  LET c == cs[p]
      k == cc[p]
      d == IF p + 1 <= n THEN cs[p+1] ELSE ""
  IN
  \* 1. white space
  IF IsWs(c, k) THEN
       LET e == WsEnd(cs, cc, p) IN OC(cs, cc, e, pend, pd, Append(toks, Tok("WS", "HIDDEN", p - 1, e - 1)), errs)
  \* 2. C-style comment
  ELSE IF c = "/" /\ d = "*" THEN
       LET cl == CommentClose(cs, p + 2) IN
       IF cl = 0
         THEN OC(cs, cc, n + 1, pend, pd, Append(toks, Tok("CStyleComment", "COMMENT", p - 1, n)),
                 Append(errs, Err("UnterminatedComment", n, nt)))
         ELSE OC(cs, cc, cl + 2, pend, pd, Append(toks, Tok("CStyleComment", "COMMENT", p - 1, cl + 1)), errs)
  \* 3. quoted literals
  ELSE IF c = "'" \/ c = "\"" THEN
       LET cl == QuoteClose(cs, c, p + 1) IN
       IF cl = 0
         THEN OC(cs, cc, n + 1, TRUE, "StringLiteral", Append(toks, Tok("StringLiteral", "DEFAULT", p - 1, n)),
                 Append(errs, Err("UnterminatedStringLiteral", n, nt)))
         ELSE LET lk == LitKind(cs, cl)
                  e == cl + lk[2] + 1        \* index after the token
                  bad == lk[1] = "HexStringLiteral" /\ ~HexValid(SubSeq(cs, p + 1, cl - 1))
              IN OC(cs, cc, e, TRUE, lk[1], Append(toks, Tok(lk[1], "DEFAULT", p - 1, e - 1)),
                    IF bad THEN Append(errs, Err("InvalidHexStringConstant", e - 1, nt)) ELSE errs)
  \* 4. semicolon
  ELSE IF c = ";" THEN
       OC(cs, cc, p + 1, FALSE, "SEMI", Append(toks, Tok("SEMI", "DEFAULT", p - 1, p)), errs)
  \* 5. numeric literals
  ELSE IF IsDigit(c) \/ (c = "." /\ d # "" /\ IsDigit(d)) THEN
       LET R == RefNum(cs, p)
           e1 == IF "InvalidNumericLiteral" \in R.errs
                   THEN Append(errs, Err("InvalidNumericLiteral", R.end - 1, nt)) ELSE errs
           e2 == IF "UnterminatedHexNumericLiteral" \in R.errs
                   THEN Append(e1, Err("UnterminatedHexNumericLiteral", R.end - 1, nt)) ELSE e1
       IN OC(cs, cc, R.end, TRUE, R.ty, Append(toks, Tok(R.ty, "DEFAULT", p - 1, R.end - 1)), e2)
  \* 6. names: keywords, datalines, identifiers
  ELSE IF IsNameStart(c, k) THEN
       LET e == NameEnd(cs, cc, p + 1)
           ascii == \A i \in p..e-1 : cc[i] = 0
           up == IF ascii /\ e - p <= MaxKwLen THEN UpStr(SubSeq(cs, p, e - 1)) ELSE ""
           kw == IF up = "" THEN "" ELSE KwLookup(up)
           is4 == up \in DatalinesKw4
           w == WsEnd(cs, cc, e)
       IN
       IF kw # "" THEN OC(cs, cc, e, TRUE, kw, Append(toks, Tok(kw, "DEFAULT", p - 1, e - 1)), errs)
       ELSE IF up \in (DatalinesKw1 \cup DatalinesKw4) /\ pd \in {"None", "SEMI"}
               /\ w <= n /\ cs[w] = ";" THEN
            \* datalines block: start through ';', data, terminator
            LET ds == w + 1                                       \* first index of the data
                t == IF is4 THEN FirstSemi4(cs, ds) ELSE (IF FirstSemi(cs, ds) > n THEN 0 ELSE FirstSemi(cs, ds))
                tk1 == Append(toks, Tok("DatalinesStart", "DEFAULT", p - 1, w))
            IN IF t = 0
                 THEN \* unterminated: the split of the tail is left open (DESIGN.md 7.3)
                      [toks |-> Append(Append(tk1, Tok("DatalinesTail", "DEFAULT", w, n)),
                                       Tok("EOF", "DEFAULT", n, n)),
                       errs |-> Append(errs, Err("UnterminatedDatalines", 0 - 1, nt)), tail |-> TRUE]
                 ELSE LET te == IF is4 THEN t + 4 ELSE t + 1 IN
                      OC(cs, cc, te, FALSE, "SEMI",
                         Append(Append(tk1, Tok("DatalinesData", "DEFAULT", w, t - 1)),
                                Tok("SEMI", "DEFAULT", t - 1, te - 1)), errs)
       ELSE OC(cs, cc, e, TRUE, "Identifier", Append(toks, Tok("Identifier", "DEFAULT", p - 1, e - 1)), errs)
  \* 7. '*' at statement start is a comment statement
  ELSE IF c = "*" /\ k = 0 /\ ~pend THEN
       LET s == FirstSemi(cs, p)
           e == IF s > n THEN n + 1 ELSE s + 1
       IN OC(cs, cc, e, pend, pd, Append(toks, Tok("PredictedCommentStat", "COMMENT", p - 1, e - 1)), errs)
  \* 9. character formats
  ELSE IF c = "$" /\ k = 0 THEN
       LET e == CharFormatEnd(cs, cc, p) IN
       IF e = 0 THEN OC(cs, cc, p + 1, TRUE, "DOLLAR", Append(toks, Tok("DOLLAR", "DEFAULT", p - 1, p)), errs)
       ELSE OC(cs, cc, e, TRUE, "CharFormat", Append(toks, Tok("CharFormat", "DEFAULT", p - 1, e - 1)), errs)
  \* 10. ampersand runs (never a macro variable in this domain)
  ELSE IF c = "&" /\ k = 0 THEN
       LET e == AmpRunEnd(cs, p) IN OC(cs, cc, e, TRUE, "AMP", Append(toks, Tok("AMP", "DEFAULT", p - 1, e - 1)), errs)
  \* 8, 11. operators and everything else
  ELSE LET sy == SymbolAt(cs, cc, p)
           ch == IF sy[1] = "CatchAll" THEN "HIDDEN" ELSE "DEFAULT"
           npd == IF ch = "DEFAULT" THEN sy[1] ELSE pd
       IN OC(cs, cc, p + sy[2], TRUE, npd, Append(toks, Tok(sy[1], ch, p - 1, p - 1 + sy[2])), errs)

RefLex(cs, cc) == OC(cs, cc, 1 + (IF Len(cs) > 0 /\ cc[1] = 8 THEN 1 ELSE 0), FALSE, "None", <<>>, <<>>)

\* ---- comparison with the real result --------------------------------------
HasTail(R) == "tail" \in DOMAIN R
\* number of leading reference tokens that must match one to one
StrictLen(R) == IF HasTail(R) THEN Len(R.toks) - 2 ELSE Len(R.toks)

C11_tokens(r) ==
  IF ~MacroFree(r.cs, r.cc) THEN {}
  ELSE LET R == RefLex(r.cs, r.cc)
           m == StrictLen(R)
       IN (IF (~HasTail(R) /\ NT(r) = Len(R.toks)) \/ (HasTail(R) /\ NT(r) = m + 3) THEN {}
           ELSE {<<"count", NT(r), Len(R.toks)>>}) \cup
          {<<"token", i, R.toks[i].ty>> : i \in {i \in 1..Min(m, NT(r)) :
              LET x == R.toks[i]  y == r.toks[i] IN
                ~(x.ty = y.ty /\ x.ch = y.ch /\ x.s = y.c /\ x.e = y.ec)}} \cup
          \* open tail of an unterminated datalines block
          (IF HasTail(R) /\ NT(r) = m + 3 THEN
             LET dt == r.toks[m+1]  se == r.toks[m+2]  tl == R.toks[m+1] IN
             IF /\ dt.ty = "DatalinesData" /\ dt.ch = "DEFAULT" /\ dt.c = tl.s
                /\ se.ty = "SEMI" /\ se.ch = "DEFAULT" /\ se.c = dt.ec /\ se.ec = tl.e
                /\ \A q \in se.c + 1..se.ec : r.cs[q] = ";"
                /\ r.toks[m+3].ty = "EOF"
             THEN {} ELSE {<<"datalines tail", m + 1, "DatalinesTail">>}
           ELSE {})

C11_errors(r) ==
  IF ~MacroFree(r.cs, r.cc) THEN {}
  ELSE LET R == RefLex(r.cs, r.cc) IN
       (IF Len(R.errs) = Len(r.errs) THEN {} ELSE {<<"count", Len(r.errs), Len(R.errs)>>}) \cup
       {<<"error", i, R.errs[i].k>> : i \in {i \in 1..Min(Len(R.errs), Len(r.errs)) :
           LET x == R.errs[i]  y == r.errs[i] IN
             ~(x.k = y.k /\ x.lt = y.lt /\ (x.at = y.c \/ x.at < 0))}}

C11_domain(r) == MacroFree(r.cs, r.cc)
=============================================================================
