------------------------------- MODULE Shapes -------------------------------
(***************************************************************************)
(* C06: the per-type lexical shape table of DESIGN.md 7.2 as a predicate   *)
(* on (type, channel, text, payload kind, errors naming the token).        *)
(***************************************************************************)
EXTENDS Props, Tokens

\* ---- helpers on classified character sequences (cs: characters, cc: classes)
AllWs(cs, cc)   == \A i \in 1..Len(cs) : IsWs(cs[i], cc[i])
NameOK(cs, cc)  == /\ Len(cs) >= 1
                   /\ IsNameStart(cs[1], cc[1])
                   /\ \A i \in 2..Len(cs) : IsXidCont(cs[i], cc[i])
AsciiNameOK(cs) == /\ Len(cs) >= 1 /\ IsAsciiNameStart(cs[1])
                   /\ \A i \in 2..Len(cs) : IsAsciiNameCont(cs[i])
AllAscii(cc)    == \A i \in 1..Len(cc) : cc[i] = 0
Is(cs, str)     == Len(cs) = Len(str) /\ \A i \in 1..Len(cs) : cs[i] = SubSeq(str, i, i)
IsOneOf(cs, S)  == \E str \in S : Is(cs, str)
UpIs(cs, str)   == Len(cs) = Len(str) /\ \A i \in 1..Len(cs) : Up(cs[i]) = SubSeq(str, i, i)
UpIsOneOf(cs, S) == \E str \in S : UpIs(cs, str)
StartsWith(cs, str) == Len(cs) >= Len(str) /\ \A i \in 1..Len(str) : cs[i] = SubSeq(str, i, i)
EndsWith(cs, str) ==
  Len(cs) >= Len(str) /\ \A i \in 1..Len(str) : cs[Len(cs) - Len(str) + i] = SubSeq(str, i, i)

\* q occurs in cs[lo..hi] only in adjacent pairs
RECURSIVE PairsOnly(_, _, _, _)
PairsOnly(cs, q, lo, hi) ==
  IF lo > hi THEN TRUE
  ELSE IF cs[lo] # q THEN PairsOnly(cs, q, lo + 1, hi)
  ELSE lo + 1 <= hi /\ cs[lo + 1] = q /\ PairsOnly(cs, q, lo + 2, hi)

\* quoted literal: q content q suffix, or (unterminated) q content
QuotedTerminated(cs, sfx) ==
  LET n == Len(cs)  s == Len(sfx) IN
  /\ n >= 2 + s
  /\ cs[1] \in {"'", "\""}
  /\ cs[n - s] = cs[1]
  /\ PairsOnly(cs, cs[1], 2, n - s - 1)
  /\ \A i \in 1..s : Up(cs[n - s + i]) = SubSeq(sfx, i, i)
QuotedUnterminated(cs) ==
  /\ Len(cs) >= 1 /\ cs[1] \in {"'", "\""} /\ PairsOnly(cs, cs[1], 2, Len(cs))

\* errors of kind k naming token index i (0-based) as their last token
HasErrAt(r, k, i) == \E e \in 1..Len(r.errs) : r.errs[e].k = k /\ r.errs[e].lt = i
HasErrAtOff(r, k, b) == \E e \in 1..Len(r.errs) : r.errs[e].k = k /\ r.errs[e].b = b

NoSubAfter(cs, a, b, from) ==   \* no occurrence of the two characters a b starting at index >= from
  \A i \in from..Len(cs) - 1 : ~(cs[i] = a /\ cs[i+1] = b)
NoChar(cs, c, lo, hi) == \A i \in lo..hi : cs[i] # c

SymbolText(ty) ==
  CASE ty = "PERCENT" -> {"%"} [] ty = "LCURLY" -> {"{"} [] ty = "RCURLY" -> {"}"}
    [] ty = "LBRACK" -> {"["} [] ty = "RBRACK" -> {"]"}
    [] ty = "STAR" -> {"*"} [] ty = "STAR2" -> {"**"}
    [] ty = "EXCL" -> {"!"} [] ty = "EXCL2" -> {"!!"}
    [] ty = "PIPE" -> {"|"} [] ty = "PIPE2" -> {"||"}
    [] ty = "PLUS" -> {"+"} [] ty = "MINUS" -> {"-"}
    [] ty = "LT" -> {"<"} [] ty = "LE" -> {"<="} [] ty = "GT" -> {">"} [] ty = "GE" -> {">="}
    [] ty = "LTGT" -> {"<>"} [] ty = "GTLT" -> {"><"} [] ty = "SoundsLike" -> {"=*"}
    [] ty = "DOT" -> {"."} [] ty = "DOLLAR" -> {"$"} [] ty = "AT" -> {"@"}
    [] ty = "HASH" -> {"#"} [] ty = "QUESTION" -> {"?"} [] ty = "COLON" -> {":"}
    [] ty = "MacroVarTerm" -> {"."} [] ty = "StringExprStart" -> {"\""}
    [] ty = "LPAREN" -> {"("} [] ty = "RPAREN" -> {")"} [] ty = "COMMA" -> {","}
    [] ty = "FSLASH" -> {"/"} [] ty = "ASSIGN" -> {"=", "%="}
    [] OTHER -> {}
MayBeEmptySymbol == {"LPAREN", "RPAREN", "ASSIGN", "COMMA", "FSLASH"}

\* one of the NOT characters, optionally %-quoted (only ^ and ~ can be)
NotText(cs, cc, withEq) ==
  LET n == Len(cs)  m == IF withEq THEN n - 1 ELSE n IN
  /\ (withEq => (n >= 2 /\ cs[n] = "="))
  /\ \/ (m = 1 /\ IsNotSignOC(cs[1], cc[1]))
     \/ (m = 2 /\ cs[1] = "%" /\ cc[2] = 0 /\ cs[2] \in {"^", "~"})

IsPow2(n) == n \in {1, 2, 4, 8, 16, 32, 64, 128, 256, 512, 1024, 2048, 4096}
Log2(n) == CHOOSE k \in 0..12 : 2^k = n

\* characters that start some other open-code token, so never a CatchAll
OpenCodeStartChars ==
  {"'", "\"", ";", "/", "&", "%", "*", "(", ")", "{", "}", "[", "]", "!", "|", "^", "~", "+", "-",
   "<", ">", ".", ",", ":", "=", "$", "@", "#", "?"}

CharFormatOK(cs, cc) ==
  \* $ [name] digits* . digits*
  /\ Len(cs) >= 2 /\ cs[1] = "$"
  /\ \E d \in 2..Len(cs) :
       /\ cs[d] = "."
       /\ \A i \in d+1..Len(cs) : IsDigit(cs[i])
       /\ \E k \in 1..d-1 :     \* name is cs[2..k], digits cs[k+1..d-1]
            /\ (k >= 2 => NameOK(SubSeq(cs, 2, k), SubSeq(cc, 2, k)))
            /\ \A i \in k+1..d-1 : IsDigit(cs[i])

DatalinesKw == {"DATALINES", "CARDS", "LINES", "DATALINES4", "CARDS4", "LINES4"}
DatalinesStartOK(cs, cc) ==
  LET n == Len(cs) IN
  /\ n >= 2 /\ cs[n] = ";"
  /\ \E k \in 1..n-1 : /\ UpIsOneOf(SubSeq(cs, 1, k), DatalinesKw)
                        /\ \A i \in k+1..n-1 : IsWs(cs[i], cc[i])

NumericChars == HexDigits \cup {".", "e", "E", "+", "-", "x", "X"}

PayloadKindFor(ty) ==
  CASE ty \in {"IntegerLiteral", "MacroVarResolve"} -> {"i"}
    [] ty \in {"FloatLiteral", "FloatExponentLiteral"} -> {"f"}
    [] ty \in StrLitTypes \cup {"StringExprText", "StringExprEnd", "MacroString"} -> {"n", "s"}
    [] OTHER -> {"n"}

ChannelFor(ty) ==
  CASE ty \in CommentTypes -> {"COMMENT"}
    [] ty \in {"WS", "CatchAll", "KwmStr", "KwmNrStr"} -> {"HIDDEN"}
    [] ty \in {"COLON", "LPAREN", "RPAREN"} -> {"DEFAULT", "HIDDEN"}
    [] OTHER -> {"DEFAULT"}

\* the shape predicate proper; i is the 1-based token index
TextShapeOK(r, i) ==
  LET t == r.toks[i]
      ty == t.ty
      cs == TokText(r, t)
      cc == TokCls(r, t)
      n == Len(cs)
  IN
  CASE ty = "EOF" -> n = 0
    [] ty = "MacroSep" -> n = 0
    [] ty = "MacroStringEmpty" -> n = 0
    [] ty = "WS" -> n >= 1 /\ AllWs(cs, cc)
    [] ty = "CatchAll" ->
         /\ n = 1
         /\ ~IsWs(cs[1], cc[1]) /\ ~IsNameStart(cs[1], cc[1])
         /\ (cc[1] = 0 => (~IsDigit(cs[1]) /\ cs[1] \notin OpenCodeStartChars))
         /\ cc[1] \notin {5, 6, 7}
    [] ty = "SEMI" ->
         /\ \A k \in 1..n : cs[k] = ";"
         /\ (n \in {0, 1, 4} \/ (n \in {2, 3} /\ HasErrAtOff(r, "UnterminatedDatalines", t.b)))
    [] ty = "AMP" -> n >= 1 /\ \A k \in 1..n : cs[k] = "&"
    [] ty = "NOT" -> NotText(cs, cc, FALSE)
    [] ty = "NE" -> NotText(cs, cc, TRUE)
    [] ty = "BPIPE" -> n = 1 /\ IsBPipe(cs[1], cc[1])
    [] ty = "BPIPE2" -> n = 2 /\ IsBPipe(cs[1], cc[1]) /\ IsBPipe(cs[2], cc[2])
    [] SymbolText(ty) # {} ->
         \/ IsOneOf(cs, SymbolText(ty))
         \/ (n = 0 /\ ty \in MayBeEmptySymbol)
    [] ty \in KwTypes -> UpIsOneOf(cs, KwSpellings(ty))
    [] ty \in KwmTypes ->
         n >= 2 /\ cs[1] = "%" /\ UpIsOneOf(SubSeq(cs, 2, n), KwSpellings(ty))
    [] ty \in {"MacroIdentifier", "MacroLabel"} ->
         /\ n >= 2 /\ cs[1] = "%"
         /\ NameOK(SubSeq(cs, 2, n), SubSeq(cc, 2, n))
         /\ ~(AllAscii(cc) /\ n - 1 <= MaxMKwLen /\ UpStr(SubSeq(cs, 2, n)) \in AllMKw)
    [] ty = "Identifier" -> NameOK(cs, cc)
    [] ty \in NumTypes ->
         /\ n >= 1 /\ (IsDigit(cs[1]) \/ (n >= 2 /\ cs[1] = "." /\ IsDigit(cs[2])))
         /\ \A k \in 1..n : cc[k] = 0 /\ cs[k] \in NumericChars
    [] ty \in StrLitTypes ->
         IF HasErrAt(r, "UnterminatedStringLiteral", t.i)
           THEN ty = "StringLiteral" /\ QuotedUnterminated(cs)
           ELSE QuotedTerminated(cs, LitSuffix(ty))
    [] ty = "StringExprText" -> n >= 1 /\ PairsOnly(cs, "\"", 1, n)
    [] ty \in StrExprEndTypes ->
         IF HasErrAt(r, "UnterminatedStringLiteral", t.i)
           THEN ty = "StringExprEnd" /\ PairsOnly(cs, "\"", 1, n)
           ELSE /\ n = 1 + Len(LitSuffix(ty)) /\ cs[1] = "\""
                /\ UpIs(SubSeq(cs, 2, n), LitSuffix(ty))
    [] ty = "CStyleComment" ->
         /\ StartsWith(cs, "/*")
         /\ IF HasErrAt(r, "UnterminatedComment", t.i)
              THEN NoSubAfter(cs, "*", "/", 3) /\ t.eb = r.len
              ELSE n >= 4 /\ EndsWith(cs, "*/") /\ \A k \in 3..n-2 : ~(cs[k] = "*" /\ cs[k+1] = "/")
    [] ty = "PredictedCommentStat" ->
         /\ n >= 1 /\ cs[1] = "*"
         /\ \/ (cs[n] = ";" /\ NoChar(cs, ";", 1, n - 1))
            \/ (NoChar(cs, ";", 1, n) /\ t.eb = r.len)
    [] ty = "MacroComment" ->
         /\ StartsWith(cs, "%*") /\ (cs[n] = ";" \/ t.eb = r.len)
    [] ty = "DatalinesStart" -> DatalinesStartOK(cs, cc)
    [] ty = "DatalinesData" -> TRUE
    [] ty = "CharFormat" -> CharFormatOK(cs, cc)
    [] ty = "MacroVarResolve" ->
         /\ n >= 1 /\ \A k \in 1..n : cs[k] = "&"
         /\ IsPow2(n) /\ t.pk = "i" /\ t.pis = ToString(Log2(n))
    [] ty = "MacroString" -> n >= 1
    [] OTHER -> FALSE   \* a type this table does not know

C06_shape(r) == {i \in 1..NT(r) : ~TextShapeOK(r, i)}
C06_payload_kind(r) == {i \in 1..NT(r) : r.toks[i].pk \notin PayloadKindFor(r.toks[i].ty)}
C06_channel(r) == {i \in 1..NT(r) : r.toks[i].ch \notin ChannelFor(r.toks[i].ty)}

\* index of the previous token that is not white space / a C-style comment (0 if none)
RECURSIVE PrevSig(_, _)
PrevSig(toks, i) ==
  IF i < 1 THEN 0 ELSE IF SkippableAfterKw(toks[i]) THEN PrevSig(toks, i - 1) ELSE i

\* hidden COLON iff it follows a macro label; hidden LPAREN only after %str/%nrstr;
\* hidden RPARENs never outnumber hidden LPARENs
RECURSIVE HiddenParenBalance(_, _, _, _)
HiddenParenBalance(toks, i, open, acc) ==
  IF i > Len(toks) THEN acc
  ELSE LET t == toks[i] IN
       IF t.ch = "HIDDEN" /\ t.ty = "LPAREN" THEN HiddenParenBalance(toks, i + 1, open + 1, acc)
       ELSE IF t.ch = "HIDDEN" /\ t.ty = "RPAREN"
         THEN HiddenParenBalance(toks, i + 1, open - 1, IF open <= 0 THEN acc \cup {i} ELSE acc)
       ELSE HiddenParenBalance(toks, i + 1, open, acc)
C06_hidden(r) ==
  {i \in 1..NT(r) : LET t == r.toks[i]  p == PrevSig(r.toks, i - 1) IN
     \/ (t.ty = "COLON" /\ (t.ch = "HIDDEN") # (p >= 1 /\ r.toks[p].ty = "MacroLabel"))
     \/ (t.ty = "LPAREN" /\ t.ch = "HIDDEN" /\ ~(p >= 1 /\ r.toks[p].ty \in {"KwmStr", "KwmNrStr"}))
     \/ (t.ty = "LPAREN" /\ t.ch = "DEFAULT" /\ p >= 1 /\ r.toks[p].ty \in {"KwmStr", "KwmNrStr"})}
  \cup HiddenParenBalance(r.toks, 1, 0, {})
=============================================================================
