------------------------------ MODULE TraceMon ------------------------------
(***************************************************************************)
(* Monitoring: evaluates the clauses of one property (Props and friends)   *)
(* on every case record of a trace file produced by the harness from the   *)
(* real lexer.  Never fails: a clause with witnesses prints a VERDICT line *)
(* and the run goes on, so that all verdicts of a run are seen.            *)
(*                                                                         *)
(* The state space is W independent chains k, k+W, k+2W, ... over the case *)
(* indices, so that TLC's workers share the file.  The driver checks that  *)
(* the number of distinct states equals the number of records.             *)
(***************************************************************************)
EXTENDS TraceConf, Json, IOUtils

CONSTANTS W,      \* number of chains
          PROP    \* property id, e.g. "C02" ("CONF": conformance with the operational model)
\* (MacroSepOn, declared by SasLexer: the feature configuration of the build that was traced)

Recs == ndJsonDeserialize(IOEnv.TRACE)
NRec == Len(Recs)

VARIABLE k

Init == k \in 1..(IF W < NRec THEN W ELSE NRec)
Next == k + W <= NRec /\ k' = k + W
Spec == Init /\ [][Next]_k

Clauses(r) ==
  CASE PROP = "C01" ->
         << <<"C01_returns", C01_returns(r)>> >> \o
         (IF r.ok THEN
          << <<"C01_budget", C01_budget(r)>>,
             <<"C01_no_internal", C01_no_internal(r)>>,
             <<"C01_linear", C01_linear(r)>>,
             <<"C01_progress", C01_progress(r)>>,
             <<"C01_ckpt_ops", C01_ckpt_ops(r)>> >> ELSE <<>>)
    [] PROP = "C02" ->
         << <<"C02_first", C02_first(r)>>, <<"C02_tiles", C02_tiles(r)>>,
            <<"C02_monotone", C02_monotone(r)>>, <<"C02_eof", C02_eof(r)>>,
            <<"C02_boundary", C02_boundary(r)>>, <<"C02_accessors", C02_accessors(r)>>,
            <<"C02_step", C02_step(r)>> >>
    [] PROP = "C03" ->
         << <<"C03_tok", C03_tok(r)>>, <<"C03_err", C03_err(r)>>,
            <<"C03_cursor", C03_cursor(r)>>, <<"C03_step_tok", C03_step_tok(r)>> >>
    [] PROP = "C04" ->
         << <<"C04_start", C04_start(r)>>, <<"C04_end", C04_end(r)>>,
            <<"C04_count", C04_count(r)>>, <<"C04_err", C04_err(r)>>,
            <<"C04_table_len", C04_table_len(r)>>, <<"C04_table", C04_table(r)>>,
            <<"C04_step", C04_step(r)>> >>
    [] PROP = "C05" ->
         << <<"C05_len", C05_len(r)>>, <<"C05_views", C05_views(r)>> >>
    [] PROP = "C09" ->
         << <<"C09_bounds", C09_bounds(r)>>, <<"C09_last_token", C09_last_token(r)>>,
            <<"C09_order", C09_order(r)>>, <<"C09_err_has_tok", C09_err_has_tok(r)>>,
            <<"C09_tok_has_err", C09_tok_has_err(r)>>, <<"C09_multiplicity", C09_multiplicity(r)>>,
            <<"C09_rollback", C09_rollback(r)>> >>
    [] PROP = "C10" ->
         << <<"C10_strexpr", C10_strexpr(r)>>, <<"C10_strexpr_open", C10_strexpr_open(r)>>,
            <<"C10_datalines", C10_datalines(r)>>, <<"C10_label", C10_label(r)>>,
            <<"C10_call_paren", C10_call_paren(r)>> >>
    [] PROP = "C06" ->
         << <<"C06_shape", C06_shape(r)>>, <<"C06_payload_kind", C06_payload_kind(r)>>,
            <<"C06_channel", C06_channel(r)>>, <<"C06_hidden", C06_hidden(r)>> >>
    [] PROP = "C07" ->
         << <<"C07_presence", C07_presence(r)>>, <<"C07_value", C07_value(r)>>,
            <<"C07_hex_error", C07_hex_error(r)>>, <<"C07_partition", C07_partition(r)>>,
            <<"C07_buffer_unused", C07_buffer_unused(r)>> >>
    [] PROP = "C08" ->
         << <<"C08_extent_type", C08_extent_type(r)>>, <<"C08_int_value", C08_int_value(r)>>,
            <<"C08_float_value", C08_float_value(r)>> >>
    [] PROP = "C11" ->
         << <<"C11_tokens", C11_tokens(r)>>, <<"C11_errors", C11_errors(r)>> >>
    [] PROP = "C12" ->
         << <<"C12_no_errors", C12_no_errors(r)>>, <<"C12_config", C12_config(r)>> >>
    [] PROP = "C13" -> << <<"C13_expect", C13_expect(r)>> >>
    [] PROP = "C14" -> << <<"C14_diag", C14_diag(r)>> >>
    [] PROP = "CONF" -> << <<"CONF_drift", CONF_drift(r)>> >>
    \* design level: the same clauses on the model's own result for the text of the record
    [] PROP = "MSAME" -> << <<"M_same_toks", M_same_toks(r)>>, <<"M_same_errs", M_same_errs(r)>>, <<"M_fault", M_fault(r)>> >>
    [] PROP = "M06" -> LET m == ModelRec(r) IN
         << <<"M06_shape", C06_shape(m)>>, <<"M06_payload_kind", C06_payload_kind(m)>>,
            <<"M06_channel", C06_channel(m)>>, <<"M06_hidden", C06_hidden(m)>> >>
    [] PROP = "M09" -> LET m == ModelRec(r) IN
         << <<"M09_bounds", C09_bounds(m)>>, <<"M09_last_token", C09_last_token(m)>>,
            <<"M09_order", C09_order(m)>>, <<"M09_err_has_tok", C09_err_has_tok(m)>>,
            <<"M09_tok_has_err", C09_tok_has_err(m)>>, <<"M09_multiplicity", C09_multiplicity(m)>> >>
    [] PROP = "M10" -> LET m == ModelRec(r) IN
         << <<"M10_strexpr", C10_strexpr(m)>>, <<"M10_strexpr_open", C10_strexpr_open(m)>>,
            <<"M10_datalines", C10_datalines(m)>>, <<"M10_label", C10_label(m)>>,
            <<"M10_call_paren", C10_call_paren(m)>> >>
    [] PROP = "M11" -> LET m == ModelRec(r) IN
         << <<"M11_tokens", C11_tokens(m)>>, <<"M11_errors", C11_errors(m)>> >>
    [] PROP = "M12" -> LET m == ModelRec(r) IN
         << <<"M12_no_errors", C12_no_errors(m)>>, <<"M12_config", C12_config(m)>> >>
    [] PROP = "M13" -> LET m == ModelRec(r) IN << <<"M13_expect", C13_expect(m)>> >>
    [] PROP = "M14" -> LET m == ModelRec(r) IN << <<"M14_diag", C14_diag(m)>> >>
    [] OTHER -> <<>>

\* relational properties: the record is a tuple of results
PairClauses(p) ==
  CASE PROP = "C15" ->
         << <<"C15_len", C15_len(p)>>, <<"C15_toks", C15_toks(p)>>, <<"C15_errs", C15_errs(p)>> >>
    [] PROP = "C16" ->
         << <<"C16_len", C16_len(p)>>, <<"C16_toks", C16_toks(p)>>, <<"C16_text", C16_text(p)>>, <<"C16_errs", C16_errs(p)>> >>
    [] PROP = "C17" ->
         << <<"C17_len", C17_len(p)>>, <<"C17_toks", C17_toks(p)>>, <<"C17_errs", C17_errs(p)>> >>
    [] PROP = "C18" ->
         << <<"C18_len", C18_len(p)>>, <<"C18_erase", C18_erase(p)>>, <<"C18_errs", C18_errs(p)>>,
            <<"C18_placement", C18_placement(p)>> >>
    [] PROP = "C19" ->
         << <<"C19_same", C19_same(p)>>, <<"C19_events", C19_events(p)>> >>
    [] PROP = "C20" ->
         << <<"C20_returns", C20_returns(p)>> >> \o
         (IF ~(p.a.ok /\ p.b.ok) THEN <<>> ELSE
          << <<"C20_decode", C20_decode(p)>> >> \o
          (IF p.native THEN
             << <<"C20_fidelity_toks", C20_fidelity_toks(p)>>, <<"C20_fidelity_errs", C20_fidelity_errs(p)>>,
                <<"C20_fidelity_lit", C20_fidelity_lit(p)>>, <<"C20_payload_value", C20_payload_value(p)>> >>
           ELSE <<>>) \o
          << <<"C20_enum", C20_enum(p)>>, <<"C20_tile", C20_tile(p)>>, <<"C20_pos", C20_pos(p)>>,
             <<"C20_err_pos", C20_err_pos(p)>>, <<"C20_payload_range", C20_payload_range(p)>> >>)
    [] OTHER -> <<>>
IsPair == PROP \in {"C15", "C16", "C17", "C18", "C19", "C20"}

\* Extents that lie outside the text are the business of C01-C03 (like panics and budget overruns are C01's): the
\* clauses of the other properties slice the text by token extents and are not defined on such a record.
PositionsSane(r) ==
  /\ \A i \in 1..Len(r.toks) : LET t == r.toks[i] IN
        /\ t.c \in 0..Len(r.cs) /\ t.ec \in 0..Len(r.cs) /\ t.c <= t.ec
  /\ \A i \in 1..Len(r.errs) : r.errs[i].c \in 0..Len(r.cs)
  /\ \A i \in 1..Len(r.events) : r.events[i].ca \in 0..Len(r.cs)
                                  /\ \A j \in 1..Len(r.events[i].tt) : r.events[i].tt[j].c \in 0..Len(r.cs)
EmitVerdict(id, cl) ==
  cl[2] = {} \/ PrintT(<<"VERDICT", id, cl[1], Cardinality(cl[2]), CHOOSE x \in cl[2] : TRUE>>)

ReportPair(p) ==
  IF ~(CertOK(p.a) /\ (PROP = "C20" \/ CertOK(p.b)) /\ (PROP = "C15" => CertOK(p.ab))) THEN PrintT(<<"CERTFAIL", p.id>>)
  ELSE IF PROP \in {"C16", "C17", "C18"} /\ ~Ok2(p) THEN PrintT(<<"SKIPPED", p.id>>)
  ELSE IF PROP \in {"C15", "C16", "C17", "C18"} /\ ~(PositionsSane(p.a) /\ PositionsSane(p.b)) THEN PrintT(<<"SKIPPED", p.id>>)
  ELSE LET cls == PairClauses(p) IN \A i \in 1..Len(cls) : EmitVerdict(p.id, cls[i])

Report(r) ==
  IF IsPair THEN ReportPair(r)
  ELSE IF ~CertOK(r) THEN PrintT(<<"CERTFAIL", r.id>>)
  ELSE IF PROP # "C01" /\ (~r.ok \/ r.budget_exceeded) THEN PrintT(<<"SKIPPED", r.id>>)
  ELSE IF PROP \notin {"C01", "C02", "C03", "C04", "C05"} /\ ~PositionsSane(r) THEN PrintT(<<"SKIPPED", r.id>>)
  ELSE LET cls == Clauses(r) IN \A i \in 1..Len(cls) : EmitVerdict(r.id, cls[i])

\* always TRUE; evaluated once per distinct state, i.e. once per record
Monitor == Report(Recs[k])
=============================================================================
