#!/usr/bin/env python3
"""C20: runs the Python binding of a scratch copy of the workspace on case files.

    pyrun.py build <scratch_dir> <target_dir>      -> builds the extension, prints JSON with paths and
                                                     the comparison of generated vs committed enum modules
    pyrun.py run <pkg_dir> <py_src_dir> <cases.ndjson> <out.ndjson>

The payload is decoded with the small msgpack reader below (msgspec is not installed and not
needed); fields are named by position from the field order *declared in* token.py / error.py
(their class bodies are read as text), enum members from token_type.py / token_channel.py /
error_kind.py.  Output records have the layout of lexrun's records (Python view in `toks`)."""
import json
import os
import re
import shutil
import struct
import subprocess
import sys


# ----------------------------------------------------------------------------- msgpack
def unpack(b):
    pos = [0]

    def rd(n):
        v = b[pos[0]:pos[0] + n]
        if len(v) != n:
            raise ValueError("truncated msgpack")
        pos[0] += n
        return v

    def obj():
        t = rd(1)[0]
        if t <= 0x7f:
            return t
        if 0x80 <= t <= 0x8f:
            return {str_or(obj()): obj() for _ in range(t & 0x0f)}
        if 0x90 <= t <= 0x9f:
            return [obj() for _ in range(t & 0x0f)]
        if 0xa0 <= t <= 0xbf:
            return rd(t & 0x1f).decode("utf-8")
        if t >= 0xe0:
            return t - 0x100
        if t == 0xc0:
            return None
        if t == 0xc2:
            return False
        if t == 0xc3:
            return True
        if t in (0xc4, 0xc5, 0xc6):
            n = int.from_bytes(rd(1 << (t - 0xc4)), "big")
            return bytes(rd(n))
        if t == 0xca:
            return struct.unpack(">f", rd(4))[0]
        if t == 0xcb:
            return struct.unpack(">d", rd(8))[0]
        if t in (0xcc, 0xcd, 0xce, 0xcf):
            return int.from_bytes(rd(1 << (t - 0xcc)), "big")
        if t in (0xd0, 0xd1, 0xd2, 0xd3):
            return int.from_bytes(rd(1 << (t - 0xd0)), "big", signed=True)
        if t in (0xd9, 0xda, 0xdb):
            n = int.from_bytes(rd(1 << (t - 0xd9)), "big")
            return rd(n).decode("utf-8")
        if t in (0xdc, 0xdd):
            n = int.from_bytes(rd(2 if t == 0xdc else 4), "big")
            return [obj() for _ in range(n)]
        if t in (0xde, 0xdf):
            n = int.from_bytes(rd(2 if t == 0xde else 4), "big")
            return {str_or(obj()): obj() for _ in range(n)}
        raise ValueError("unsupported msgpack type 0x%02x" % t)

    def str_or(k):
        return k

    v = obj()
    if pos[0] != len(b):
        raise ValueError("trailing bytes in msgpack payload")
    return v


# ----------------------------------------------------------------------------- declared layouts
def struct_fields(path, cls):
    """Field names of a msgspec.Struct class, in declaration order (annotations of the class body)."""
    text = open(path, encoding="utf-8").read()
    m = re.search(r"^class %s\(.*?\):\n(.*?)(?=^\S|\Z)" % cls, text, re.S | re.M)
    body = m.group(1)
    body = re.sub(r'""".*?"""', "", body, flags=re.S)
    return re.findall(r"^    (\w+)\s*:", body, re.M)


def enum_members(path, cls):
    text = open(path, encoding="utf-8").read()
    m = re.search(r"^class %s\(.*?\):\n(.*?)(?=^\S|\Z)" % cls, text, re.S | re.M)
    return {int(v): k for k, v in re.findall(r"^    (\w+)\s*=\s*(\d+)", m.group(1), re.M)}


def char_class(c):
    import unicodedata
    o = ord(c)
    if o in (0x0b, 0x0c):
        return 1
    if o == 0xac:
        return 5
    if o == 0xa6:
        return 6
    if o == 0x2218:
        return 7
    if o == 0xfeff:
        return 8
    if o < 128:
        return 0
    if c.isspace() and unicodedata.category(c) in ("Zs", "Zl", "Zp", "Cc"):
        return 1
    if c.isidentifier():
        return 2
    if ("a" + c).isidentifier():
        return 3
    return 4


def cmd_build(scratch, target):
    env = dict(os.environ)
    env["CARGO_TARGET_DIR"] = target
    env["CARGO_NET_OFFLINE"] = "true"
    env.pop("RUSTFLAGS", None)
    p = subprocess.run(["cargo", "build", "--offline", "--release", "-p", "sas-lexer-py", "--quiet"],
                       cwd=scratch, env=env, stdout=subprocess.PIPE, stderr=subprocess.STDOUT, text=True)
    res = {"ok": p.returncode == 0, "log": p.stdout[-3000:]}
    if res["ok"]:
        pkg = os.path.join(scratch, "pkg")
        os.makedirs(pkg, exist_ok=True)
        shutil.copy(os.path.join(target, "release", "lib_sas_lexer_rust.so"), os.path.join(pkg, "_sas_lexer_rust.so"))
        res["pkg"] = pkg
    print(json.dumps(res))


def cmd_run(pkg, pysrc, cases, out):
    sys.path.insert(0, pkg)
    import _sas_lexer_rust as ext
    tok_fields = struct_fields(os.path.join(pysrc, "token.py"), "Token")
    err_fields = struct_fields(os.path.join(pysrc, "error.py"), "Error")
    tt = enum_members(os.path.join(pysrc, "token_type.py"), "TokenType")
    tc = enum_members(os.path.join(pysrc, "token_channel.py"), "TokenChannel")
    ek = enum_members(os.path.join(pysrc, "error_kind.py"), "ErrorKind")
    # call history: one large program first (a caller's earlier, unrelated call), and again every 500 cases; its
    # result is not judged.  State kept by the binding between calls shows in the calls that follow.
    big = "".join("data a%d; set b; x = %d; y = 'it''s'; run;\n" % (k, k) for k in range(6000))
    def warm():
        try:
            ext._lex_program_from_str(big)
        except BaseException:
            pass
    warm()
    ncase = 0
    with open(cases, encoding="utf-8") as f, open(out, "w", encoding="utf-8") as w:
        for line in f:
            ncase += 1
            if ncase % 500 == 0:
                warm()
            if not line.strip():
                continue
            c = json.loads(line)
            src = c["src"]
            rec = {"id": c["id"], "ok": True, "panic": "", "budget_exceeded": False, "events": []}
            chars = list(src)
            rec["cs"] = chars
            rec["cc"] = [char_class(ch) for ch in chars]
            if c.get("pyonly"):
                # a text that only exists as a Python str (lone surrogates): position tables by code point;
                # surrogates are written as U+FFFD (class 4) and counted as 3 bytes
                def is_sur(ch):
                    return 0xD800 <= ord(ch) <= 0xDFFF
                cs = ["\ufffd" if is_sur(ch) else ch for ch in chars]
                cw = [3 if is_sur(ch) else len(ch.encode("utf-8")) for ch in chars]
                cc = [4 if is_sur(ch) else char_class(ch) for ch in chars]
                cb, cl, cco = [], [], []
                b, l = 0, 1
                bom = 1 if chars[:1] == ["\ufeff"] else 0
                col = -1 if bom else 0
                for ch, w_ in zip(chars, cw):
                    cb.append(b); cl.append(l); cco.append(col)
                    b += w_
                    if ch == "\n":
                        l += 1; col = 0
                    else:
                        col += 1
                cb.append(b); cl.append(l); cco.append(col)
                rec["tbl"] = {"id": c["id"], "ok": True, "panic": "", "native": False, "budget_exceeded": False, "events": [],
                              "cs": cs, "cw": cw, "cc": cc, "cb": cb, "cl": cl, "cco": cco, "bom": bom, "len": b,
                              "nchars": len(chars), "rtoks": [], "errs": [], "lit": [], "litlen": 0}
                rec["cs"] = cs
                rec["cc"] = cc
            try:
                raw = ext._lex_program_from_str(src)
            except BaseException as e:  # PanicException derives from BaseException
                rec["ok"] = False
                rec["panic"] = "%s: %s" % (type(e).__name__, str(e)[:200])
                w.write(json.dumps(rec, ensure_ascii=not all(ord(x) < 0xD800 or ord(x) > 0xDFFF for x in "".join(rec.get("lit", [])))) + "\n")
                continue
            try:
                # every token and error takes a bounded number of bytes, and there are at most a few tokens per character:
                # a payload far beyond that is not the result of this call (and decoding it in Python would take minutes)
                if len(raw) > 96 * (len(src.encode("utf-8", "surrogatepass")) + 16) + 2048:
                    raise ValueError("payload of %d bytes for a source of %d characters" % (len(raw), len(src)))
                payload = unpack(raw)
                toks_raw, errs_raw, lit = payload
                toks = []
                for t in toks_raw:
                    if len(t) != len(tok_fields):
                        raise ValueError("token has %d fields, Token declares %d" % (len(t), len(tok_fields)))
                    d = dict(zip(tok_fields, t))
                    pl = d["payload"]
                    if pl is None:
                        pk, pv = "n", ""
                    elif isinstance(pl, bool):
                        raise ValueError("boolean payload")
                    elif isinstance(pl, int):
                        pk, pv = "i", str(pl)
                    elif isinstance(pl, float):
                        pk, pv = "f", "%016x" % struct.unpack(">Q", struct.pack(">d", pl))[0]
                    elif isinstance(pl, list) and len(pl) == 2:
                        pk, pv = "s", "%d:%d" % (pl[0], pl[1])
                    else:
                        raise ValueError("unexpected payload %r" % (pl,))
                    ps, pe = (pl if pk == "s" else (0, 0))
                    pt, ptok = [], True
                    if pk == "s":
                        try:
                            pt = list(lit[ps:pe].decode("utf-8")) if 0 <= ps <= pe <= len(lit) else []
                            ptok = 0 <= ps <= pe <= len(lit)
                        except UnicodeDecodeError:
                            ptok = False
                    toks.append({"i": d["token_index"], "tn": d["token_type"], "ty": tt.get(d["token_type"], "?"),
                                 "chn": d["channel"], "ch": tc.get(d["channel"], "?"),
                                 "tt_member": d["token_type"] in tt, "ch_member": d["channel"] in tc,
                                 "c": d["start"], "ec": d["stop"], "l": d["line"], "col": d["column"],
                                 "el": d["end_line"], "ecol": d["end_column"], "pk": pk, "pv": pv,
                                 "ps": ps, "pe": pe, "pt": pt, "ptok": ptok})
                errs = []
                for e in errs_raw:
                    if len(e) != len(err_fields):
                        raise ValueError("error has %d fields, Error declares %d" % (len(e), len(err_fields)))
                    d = dict(zip(err_fields, e))
                    errs.append({"code": d["error_kind"], "k": ek.get(d["error_kind"], "?"),
                                 "ek_member": d["error_kind"] in ek, "b": d["at_byte_offset"],
                                 "c": d["at_char_offset"], "l": d["on_line"], "col": d["at_column"],
                                 "lt": -1 if d["last_token_index"] is None else d["last_token_index"]})
                rec["toks"] = toks
                rec["errs"] = errs
                rec["litlen"] = len(lit)
                rec["lit"] = list(lit.decode("utf-8"))
                rec["decode_error"] = ""
            except Exception as e:  # the payload does not decode into the declared layout
                rec["toks"], rec["errs"], rec["lit"], rec["litlen"] = [], [], [], 0
                rec["decode_error"] = "%s: %s" % (type(e).__name__, str(e)[:200])
            w.write(json.dumps(rec, ensure_ascii=not all(ord(x) < 0xD800 or ord(x) > 0xDFFF for x in "".join(rec.get("lit", [])))) + "\n")


if __name__ == "__main__":
    if sys.argv[1] == "build":
        cmd_build(sys.argv[2], sys.argv[3])
    elif sys.argv[1] == "run":
        cmd_run(*sys.argv[2:6])
