SPECIFICATION Spec
INVARIANT Monitor
CONSTANTS
  W = 4
  PROP = "C02"
CHECK_DEADLOCK FALSE
