"""Input sources that are not produced by TLC: the repository's own test strings and
sample programs, a seeded fragment soup, and the derived families (truncations, LF
injection, case mangling, BOM twins, multi-byte injection).  Every case produced here is
still judged by TLC (TraceMon / Rel)."""
import os
import random
import re

REPO = os.environ.get("VERIF_REPO", "/repo")

OPEN_FRAGS = [
    " ", "  ", "\n", "\t", "\r\n", ";", ",", ".", "=", "*", "**", "/", "+", "-", "<", ">", "<=", ">=",
    "<>", "><", "=*", "^=", "~=", "\u00ac=", "\u00ac", "^", "~", "\u2218", "\u2218=", "|", "||", "!", "!!",
    "\u00a6", "\u00a6\u00a6", "(", ")", "{", "}", "[", "]", ":", "$", "@", "#", "?", "&", "&&", "%",
    "'", "\"", "''", "\"\"", "/*", "*/", "\U0001F525", "\u00e9", "\u00f1ame", "\u00a0", "\u2003", "\u0085",
    "\u4e2d", "x", "a", "b1", "_n_", "ab_c", "data", "set", "run", "proc", "if", "then", "else", "do",
    "end", "input", "put", "format", "_all_", "_null_", "corr", "exec", "datalines", "cards",
    "lines", "datalines4", "cards4", "lines4", ";;;;", "1", "42", "1.5", ".5", "1e3", "1E-2",
    "0ffx", "1ax", "9x", "1e", "1.", "1e+", "18446744073709551615", "18446744073709551616",
    "0FFFFFFFFFFFFFFFFx", "1.7976931348623157e308", "1e309", "$char10.", "$f.", "$1.", "$",
    "$abc", "$\u00e9t1.2", "'a'", "'a''b'", "\"s\"", "\"a\"\"b\"", "'1f'x", "\"1F\"X", "'1,f0'x",
    "'1g'x", "'x'n", "'01jan2020'd", "'1'dt", "'1'DT", "'1't", "'01'b", "and", "or", "not", "eq",
    "ne", "lt", "le", "gt", "ge", "in", "AND", "Ne", "\ufeff", "\x0b", "\x0c", "\x00", "\x7f",
    "a_name_of_thirty_two_characters_", "correspondingx", "age", "/*/", "10x", "1e5x", "9X", "\u00e9\u00e9", "\u20ac",
]

MACRO_FRAGS = [
    "%let", "%put", "%if", "%then", "%else", "%do", "%end", "%to", "%by", "%while", "%until",
    "%macro", "%mend", "%local", "%global", "%goto", "%return", "%abort", "%include", "%inc",
    "%list", "%run", "%input", "%window", "%display", "%symdel", "%syscall", "%sysexec",
    "%syslput", "%sysrput", "%sysmacdelete", "%sysmstoreclear", "%copy", "%str(", "%nrstr(",
    "%eval(", "%sysevalf(", "%scan(", "%qscan(", "%kscan(", "%substr(", "%qsubstr(", "%sysfunc(",
    "%qsysfunc(", "%index(", "%length(", "%upcase(", "%lowcase(", "%qlowcase(", "%trim(", "%left(",
    "%cmpres(", "%bquote(", "%nrbquote(", "%quote(", "%nrquote(", "%superq(", "%unquote(",
    "%symexist(", "%sysget(", "%datatyp(", "%compstor(", "%validchs(", "%verify(", "%kverify(",
    "%sysmexecdepth", "%sysmexecname(", "%sysprod(", "%m", "%m(", "%mac2", "%mac2(", "%lbl:",
    "&v&&&w", "&&v&&&&&i.", "&v&&&&&&&w", "&&&v&&&w..", "&a&&b&&&c", "&&&&&&&v", "&&&&&v&&&x",
    "%lbl :", "%*", "%* c;", "&v", "&&v", "&&&v", "&v.", "&v..", "&&v&i", "&&v&i..", "&", "%'",
    "%\"", "%%", "%(", "%)", "%=", "%~", "%^", "%~=", "readonly", "/ ", "a=", "=1", ",b", "%e",
    "%\u00f1", "%LET", "%Do", "%EVAL(", "%Str(", "%str", "%eval", "%scan", "%sysfunc",
    "%number_of_observations", "%abcdefghijklmno", "%abcdefghijklmn(", "%a_name_of_thirty_two_characters_(", "%\u0442\u0435\u0441\u0442(",
    "%sysmstoreclearx", "&a_name_of_thirty_two_characters_.", "%age", "%one eq",
]

EVAL_FRAGS = [
    "1", "2", "10", "1.5", "0ax", "a", "abc", " ", "  ", "+", "-", "*", "**", "/", "<", ">", "<=",
    ">=", "=", "^=", "~=", "\u00ac=", "#", "|", "&", "(", ")", ",", ";", " eq ", " ne ", " lt ",
    " le ", " gt ", " ge ", " in ", " and ", " or ", " not ", "EQ", "and", "or", "ne.", "%eq",
    "%=", "&v", "&v.", "%m", "%m(1)", "%eval(", "%str(", "'s'", "\"d\"", "/*c*/", "\n", "%to",
    "%by", "%then",
]

NAMES = ["a", "b", "x1", "var", "mv", "m", "mac2", "i", "lbl", "ds", "lib", "_x", "n"]

PROFILES = {
    "open": (OPEN_FRAGS, None),
    "macro": (MACRO_FRAGS + OPEN_FRAGS[:60] + NAMES, None),
    "eval": (EVAL_FRAGS, ["%eval(", "%sysevalf(", "%if ", "%do i=", "%do %while(", "%scan(a,",
                          "%substr(a,", "%sysfunc(f(", "%syscall f(", "%do i=1 %to "]),
    "string": (["\"", "'", "\"\"", "''", "&v", "&v.", "%m", "%m(", ")", "%let ", ";", " ", "a",
                "\n", "%str(", "%nrstr(", "%'", "%\"", "%%", "%(", "%)", "(", ",", "x", "X", "dt",
                "n", "\u00e9", "\U0001F525", "%eval(", "1f", ",", "%put ", "/*", "*/", "&", "%"],
               None),
    "args": (["%m(", "%mac2(", ",", "=", ")", "(", " ", "a", "b=", "&v", "&v.", "%m", "%str(", "'s'",
              "\"d\"", "/*c*/", "\n", ";", "x y", "%nrstr(", "%if ", "%then ", "%do;", "%end;",
              "%macro m(", "%macro m", "/ ", "parmbuff", "%mend;", "%*c;", "*c;", "%let a=", "%"],
             None),
}


def soup(rng, n, max_frags=12):
    """n random fragment concatenations."""
    names = list(PROFILES)
    out = []
    for _ in range(n):
        prof = rng.choice(names)
        frags, heads = PROFILES[prof]
        k = rng.randint(1, max_frags)
        parts = []
        if heads and rng.random() < 0.8:
            parts.append(rng.choice(heads))
        for _ in range(k):
            r = rng.random()
            if r < 0.08:
                parts.append(rng.choice(NAMES))
            elif r < 0.13:
                parts.append(rng.choice(OPEN_FRAGS))
            elif r < 0.18:
                parts.append(rng.choice(MACRO_FRAGS))
            else:
                parts.append(rng.choice(frags))
            if rng.random() < 0.25:
                parts.append(rng.choice([" ", " ", "\n", ";", "; "]))
        out.append("".join(parts))
    return out


# ----------------------------------------------------------------------------- corpus

_ESC = {"n": "\n", "t": "\t", "r": "\r", "0": "\0", "\\": "\\", '"': '"', "'": "'"}


def rust_string_literals(text):
    """Extracts string literals from Rust source (normal, raw, byte strings skipped)."""
    out = []
    i, n = 0, len(text)
    while i < n:
        c = text[i]
        if text.startswith("//", i):
            j = text.find("\n", i)
            i = n if j < 0 else j
            continue
        if text.startswith("/*", i):
            j = text.find("*/", i + 2)
            i = n if j < 0 else j + 2
            continue
        if c == "'":
            # char literal or lifetime
            m = re.match(r"'(\\.[^']*|[^\\'])'", text[i:])
            if m:
                i += m.end()
            else:
                i += 1
            continue
        if c == "r" and re.match(r'r#*"', text[i:]) and (i == 0 or not (text[i - 1].isalnum() or text[i - 1] == "_")):
            m = re.match(r'r(#*)"', text[i:])
            hashes = m.group(1)
            start = i + m.end()
            end = text.find('"' + hashes, start)
            if end < 0:
                break
            out.append(text[start:end])
            i = end + 1 + len(hashes)
            continue
        if c == '"':
            j = i + 1
            buf = []
            while j < n and text[j] != '"':
                if text[j] == "\\":
                    nx = text[j + 1]
                    if nx == "u":
                        m = re.match(r"\\u\{([0-9a-fA-F_]+)\}", text[j:])
                        buf.append(chr(int(m.group(1).replace("_", ""), 16)))
                        j += m.end()
                        continue
                    if nx == "x":
                        buf.append(chr(int(text[j + 2:j + 4], 16)))
                        j += 4
                        continue
                    if nx == "\n":
                        j += 2
                        while j < n and text[j] in " \t\n\r":
                            j += 1
                        continue
                    buf.append(_ESC.get(nx, nx))
                    j += 2
                    continue
                buf.append(text[j])
                j += 1
            out.append("".join(buf))
            i = j + 1
            continue
        i += 1
    return out


def corpus():
    """(name, text) pairs: inline test strings and sample programs of the repository."""
    res = []
    p = os.path.join(REPO, "crates/sas-lexer/src/lexer/tests/test_inline_strings.rs")
    try:
        with open(p, encoding="utf-8") as f:
            lits = rust_string_literals(f.read())
        seen = set()
        for s in lits:
            if s not in seen and len(s) <= 4000 and "{" + "}" not in s:
                seen.add(s)
                res.append(("inline", s))
    except OSError:
        pass
    for d in ("crates/sas-lexer/src/lexer/tests/samples", "tests/samples"):
        dd = os.path.join(REPO, d)
        if os.path.isdir(dd):
            for fn in sorted(os.listdir(dd)):
                if fn.endswith(".sas"):
                    with open(os.path.join(dd, fn), encoding="utf-8") as f:
                        res.append(("sample:" + fn, f.read()))
    return res


# ----------------------------------------------------------------------------- derived

def truncations(s, rng=None, limit=None):
    idx = list(range(len(s)))
    if limit is not None and len(idx) > limit:
        idx = sorted(rng.sample(idx, limit))
    return [s[:i] for i in idx]


def lf_injections(s, rng=None, limit=None):
    idx = list(range(len(s) + 1))
    if limit is not None and len(idx) > limit:
        idx = sorted(rng.sample(idx, limit))
    return [s[:i] + "\n" + s[i:] for i in idx]


def case_mangle(s, rng):
    return "".join((c.upper() if rng.random() < 0.5 else c.lower()) if c.isascii() and c.isalpha() else c
                   for c in s)


MB = ["\u00e9", "\u4e2d", "\U0001F525", "\u00a0", "\u2003"]


def multibyte_inject(s, rng):
    i = rng.randint(0, len(s))
    return s[:i] + rng.choice(MB) + s[i:]


def dedup(cases):
    seen = set()
    out = []
    for c in cases:
        if c not in seen:
            seen.add(c)
            out.append(c)
    return out


def valid_utf8(s):
    try:
        s.encode("utf-8")
        return True
    except UnicodeEncodeError:
        return False


# ----------------------------------------------------------------------------- C07 family

STR_PIECES = ["a", "b", "''", '""', "'", '"', "%", "/", "&", "&&", "\n", "\u00e9", "\U0001F525", "%'", '%"',
              "%%", "%(", "%)", "(", ")", ",", " ", "&v", "&v.", "%m", "1f", "0A", "+1", " 1", "g", ";", "=",
              "/*c*/", "%*c;", "%str(", "%let x=", "x", "X"]
STR_SUFFIX = ["", "", "", "x", "X", "b", "d", "dt", "DT", "n", "t", "T", "q"]


def string_family(rng, n):
    out = []
    for _ in range(n):
        k = rng.randint(0, 6)
        body = "".join(rng.choice(STR_PIECES) for _ in range(k))
        form = rng.randint(0, 10)
        if form == 10:
            # a string expression (macro element inside) that is never closed, with doubled quotes / line feeds in its tail
            tail = "".join(rng.choice(['""', "a", " ", "it", "\n", "\u00e9", "'", "''", "%", "&", ";", "b"]) for _ in range(rng.randint(0, 5)))
            head = "".join(rng.choice(['""', "a", " ", "x="]) for _ in range(rng.randint(0, 2)))
            out.append(rng.choice(["", "title ", "%put ", "%let a=", "x="]) + '"' + head + rng.choice(["&v", "&v.", "%m", "%m(a)", "&&v&i", "%str(a)"]) + tail)
            continue
        if form <= 1:
            s = "'" + body.replace("'", "''") + "'" + rng.choice(STR_SUFFIX)
        elif form <= 3:
            s = '"' + body.replace('"', '""') + '"' + rng.choice(STR_SUFFIX)
        elif form == 4:
            s = "%str(" + body + ")"
        elif form == 5:
            s = "%nrstr(" + body + ")"
        elif form == 6:
            q = rng.choice(["'", '"'])
            s = q + body + rng.choice(["", q, q + "x"])
        elif form == 7:
            s = "%let a=" + rng.choice(["%str(", "%nrstr(", '"', "'"]) + body + rng.choice([")", '"', "'", ""]) + ";"
        elif form == 8:
            s = "%m(" + rng.choice(["%str(", '"', "'", ""]) + body + rng.choice([")", '"', "'", ""]) + ")"
        else:
            if rng.random() < 0.35:
                # byte sequences that happen to be well-formed UTF-8 (hex literals decode byte-wise as Latin-1)
                ch = rng.choice(["\u00e9", "\u00a0", "\u20ac", "\U0001F525", "\u00df", "\u0416", "\u4e2d"])
                hx = ch.encode("utf-8").hex()
                hx = "".join(c.upper() if rng.random() < 0.5 else c for c in hx)
                pre = rng.choice(["", "41", "41,", "7f", "c3a9", "E282AC,"])
                post = rng.choice(["", "42", ",42", "80", "C3"])
                hexd = pre + hx + post
            else:
                hexd = "".join(rng.choice("0123456789abcdefABCDEF,,") for _ in range(rng.randint(0, 7)))
            q = rng.choice(["'", '"'])
            s = q + rng.choice(["", "", " ", "+", "g"]) + hexd + q + rng.choice(["x", "X"])
        if rng.random() < 0.3:
            s = rng.choice(["", " ", "a=", "%put ", "x ", '"', "%m("]) + s + rng.choice(["", ";", " ", "b", ")"])
        out.append(s)
    return out


# ----------------------------------------------------------------------------- C08 family

NUM_ALPHA = ["0", "1", "9", "a", "f", ".", "e", "E", "+", "-", "x", "X", "_"]
NUM_BOUNDARY = [
    "18446744073709551615", "18446744073709551616", "18446744073709551614", "9223372036854775808",
    "0FFFFFFFFFFFFFFFFx", "0FFFFFFFFFFFFFFFFFx", "10000000000000000x", "0ffffffffffffffffX",
    "9007199254740993", "9007199254740992.5", "9007199254740993.0", "9007199254740991",
    "1.7976931348623157e308", "1.7976931348623158e308", "1.7976931348623159e308", "1e308", "1e309",
    "179769313486231580793728971405303415079934132710037826936173778980444968292764750946649017977587207096330286416692887910946555547851940402630657488671505820681908902000708383676273854845817711531764475730270069855571366959622842914819860834936475292719074168444365510704342711559699508093042880177904174497792",
    "179769313486231580793728971405303415079934132710037826936173778980444968292764750946649017977587207096330286416692887910946555547851940402630657488671505820681908902000708383676273854845817711531764475730270069855571366959622842914819860834936475292719074168444365510704342711559699508093042880177904174497791",
    "4.9e-324", "2.4703282292062327e-324", "2.4703282292062328e-324", "2.5e-324", "1e-320", "1e-400",
    "2.2250738585072014e-308", "2.2250738585072011e-308", "0.1", "0.30000000000000004", "1e23", "8.5e22",
    "1.00000000000000011102230246251565404236316680908203125",
    "1.00000000000000011102230246251565404236316680908203124",
    "1.00000000000000011102230246251565404236316680908203126",
    "123456789012345678901234567890", "0.000000000000000000000000000001", "00000000000000000000000001",
    "1e", "1e+", "1.e", "1.", ".5", ".5e", "1ex", "1e5x", "1a", "1e1e1", "1..2", "1.5.3", "00012", "0x",
    "1FFFFFFFFFFFFFFFF.8x", "1e00000000000000000000000005", "1e-00000000000000000000000005", "0e99999999999",
    "0.0e-99999999999", "1e99999999999", "1e-99999999999",
]
NUM_CTX = ["{}", "x={};", "%eval({})", "%sysevalf({})", "%sysevalf({},int)", "%if {} %then a;", "%eval(1+{})",
           "%sysfunc(f({}))", "%do i={} %to {};", "%scan(a,{})", "{} {}", "%eval( {} )", "%eval({}/*c*/)",
           "%sysevalf({}eq{})", "%let a={};", "%eval(%{})", "%sysevalf(%{} + 1)", "%if %{} %then;", "%eval(1 %{})", "%eval(a%{})",
           "%scan(a,%{})", "%eval(&v%{})", "%eval({}%)"]


def num_family(rng, n, exhaustive_len=3):
    import itertools
    out = list(NUM_BOUNDARY)
    for ln in range(1, exhaustive_len + 1):
        for tup in itertools.product(NUM_ALPHA, repeat=ln):
            if tup[0] in "019" or (tup[0] == "." and ln > 1 and tup[1] in "019"):
                out.append("".join(tup))
    for _ in range(n):
        r = rng.random()
        if r < 0.4:
            lit = "".join(rng.choice(NUM_ALPHA) for _ in range(rng.randint(1, 9)))
            lit = rng.choice("0199") + lit
        elif r < 0.8:
            ip = "".join(rng.choice("0123456789") for _ in range(rng.randint(0, 22)))
            fp = "".join(rng.choice("0123456789") for _ in range(rng.randint(0, 25)))
            lit = ip + ("." + fp if rng.random() < 0.7 else "")
            if not lit or lit == ".":
                lit = "1"
            if lit.startswith(".") and len(lit) == 1:
                lit = "0."
            if rng.random() < 0.6:
                lit += (rng.choice("eE") + rng.choice(["", "+", "-"]) + "0" * rng.choice([0, 0, 0, 1, 2, 3, 5, 9]) +
                        str(rng.randint(0, 45)))
        else:
            lit = rng.choice(NUM_BOUNDARY)
        ctx = rng.choice(NUM_CTX) if rng.random() < 0.6 else "{}"
        out.append(ctx.replace("{}", lit))
    return out



# ----------------------------------------------------------------------------- line-break family (C04, C05, C02, C03)

ML_TEMPLATES = [
    "%* 'a{}b' c;", "%* \"a{}b\";", "%* a{}b;", "%* don't{} it's;", "%* 'a{}b{}", "/* a{}b */", "/*{}", "* a{}b;", "* 'a{}';",
    "'a{}b'", "\"a{}b\"", "\"a&x{}b\"", "\"a%m({}){}\"", "'a''{}'n", "\"00{}\"x", "'a{}", "\"a{}",
    "%str(a{}b)", "%nrstr(a{})", "%str('a{}b')", "%str(%'{})", "%str(a{}",
    "%let a=b{}c;", "%let a{}={}b;", "%put a{};", "%put 'a{}b' \"c{}d\";", "%put &a{}&b;", "%let a=/* c{} */b;",
    "%m(a{},b{}=c)", "%m(({}))", "%m{}(a)", "%m(a='x{}y')", "%m(a{}",
    "%eval(1{}+2)", "%eval({}1 eq{}2)", "%sysevalf(1.5{},{}int)", "%eval(a{}ne{}b)", "%if a{}eq b %then{}c;",
    "%sysfunc(f(a{}),b{})", "%sysfunc({}f{}(a))", "%scan(a{},{}1)", "%substr(&a,{}1,{}2)",
    "datalines;{}1 2{};", "datalines4;{}x;{};;;;", "cards;{}", "lines4;{};;;{}", "data a;{}datalines;{}1{};{}run;",
    "%macro m(a{},b=1{})/ des='x{}y';", "%macro{}m;{}%mend;", "%macro m/{}store;", "%mend{}m;",
    "%do i=1{}%to 2{}%by 1;", "%do{}%while(a{});", "%do %until({}a);", "%end{};",
    "&a{}.b", "&&a{}&b", "&a.{}", "%lbl{}:", "a %lbl{}: b", "1{}e5", "$f{}5.", "a={}*b;", "a;{}*c{};", "x{};;{};",
    "%local a{}b;", "%global{}a;", "%goto{}l;", "%copy m{}/{}s;", "%syscall f({}a{});", "%include{}f;", "%sysexec ls{}-l;",
    "%input{}a;", "%window w{};", "%then{}", "%else{}a;",
    "%macro m;{}* a{} %let x=1;{}%put &x;{}%mend;", "%macro m; *{}b %put x;{}", "%macro m;{}*{}{}%m(a);{}%mend;", "%macro m; * a{}b;{}* c %m{};",
    "%macro m; %if 1 %then * a{} %let b=1;;", "%macro m;{}* 'q{}' %x;", "%macro m; a=1;*{}c{}%do;", "* a{}%let x=1;", "%macro m;*{}", "﻿{}a", "é{}é", "\U0001F525{}",
]
ML_BREAKS = ["\n", "\n", "\r\n", "\n\n", "\n \n", " \n", "\n\t", "\r", ""]


def multiline_family(rng, n):
    out = []
    for _ in range(n):
        parts = []
        for _ in range(rng.randint(1, 3)):
            t = rng.choice(ML_TEMPLATES)
            while "{}" in t:
                t = t.replace("{}", rng.choice(ML_BREAKS), 1)
            parts.append(t)
        out.append(rng.choice(["", "", " ", "\n", ";"]).join(parts))
    return out


# ----------------------------------------------------------------------------- error family (C09, C03, C04)

ERR_TRIGGERS = [
    "'abc", "\"abc", "\"a&b", "/* c", "datalines;\n1 2", "cards4;\nx;", "1e", "1.5e+", "0ffg", "1x2", "0ffx1", "9z",
    "%eval(1", "%m(a", "%str(a", "%sysfunc(f(a)", "%eval((1)", "%let a 1;", "%do i 1 %to 2;", "%eval 1;", "%scan a;", "%substr(a);",
    "%scan(a);", "%copy m s;", "%copy m;", "%end a;", "%return x;", "%do %while(1) x;", "%until(1)", "%let 1a=1;", "%let =1;",
    "%local 1 a;", "%global (a);", "%local / readonly a=1;", "%global / a;", "%local / x;", "%macro 1m;", "%macro;", "%macro m(1a);",
    "%macro m(a,,b);", "%macro m(a=1,=2);", "%do i=1; %to 2;", "%do i=1 %to 2 %by;", "%put \"%let v=1;\";", "%let a=\"%put x;\";",
    "%put \"a%do;b\";", "%if \"%let a=1;\" %then;", "%m(\"%let a=1;\")", "'zz'x", "\"0g\"x", "'0 1'x", "\"1\"x", "%sysfunc();",
    "%sysfunc(,a)", "%qsysfunc( );", "%syscall ;", "%syscall();", "%syscall (a);", "%sysfunc(f(a) b)", "%sysevalf(1,", "%m(a=(", "%nrstr(%",
    "%let a=%str(;", "%macro m/des='x;", "%goto ;", "%lbl", "%if 1 %then", "%do;", "%mend", "%put a", "%include", "&a&(", "%*c",
]
ERR_PREFIX = ["", "", "﻿", "é", "/* é */\n", "🔥;", "x='ß'; ", "%put é;", " ", "é\n", "中 ", "%let a=é;\n", "'é'n=1;"]
ERR_INFIX = ["", "", "", "é", " ", "\n", "🔥", "/*ü*/"]


def err_family(rng, n):
    out = []
    for pre in ERR_PREFIX:
        for t in ERR_TRIGGERS:
            out.append(pre + t)
    for _ in range(n):
        parts = [rng.choice(ERR_PREFIX)]
        for _ in range(rng.randint(1, 3)):
            t = rng.choice(ERR_TRIGGERS)
            if rng.random() < 0.4 and len(t) > 2:       # a multi-byte character inside the construct
                k = rng.randint(1, len(t) - 1)
                t = t[:k] + rng.choice(ERR_INFIX) + t[k:]
            parts.append(t)
            parts.append(rng.choice(["", " ", ";", "\n", "; "]))
        out.append("".join(parts))
    return out


# ----------------------------------------------------------------------------- deep nesting family (C01, C19)

DEEP_OPEN = ["%eval(", "%sysevalf(", "%m(", "%str(", "%nrstr(", "%sysfunc(f(", "%upcase(", "%scan(a,", "%substr(a,1,", "(", "%m(a=",
             "\"%m(", "%if (", "%do i=%eval(", "%let a=%m(", "%put %str(", "%macro m(a=(", "%qsysfunc(g(%eval("]
DEEP_TAIL = ["", "1", "1 %put done; data a; run;", ";", "%end;", "%let b=1;", ")", "\"", "1)", " %mend;", "\n", "é", ",", "%*c;", "/*c*/"]


def deep_family(rng, n):
    out = []
    for op in DEEP_OPEN:
        for k in (20, 21, 41):
            for tail in ("", "1 %put done; data a; run;"):
                out.append("%put " + op * k + tail)
    for _ in range(n):
        k = rng.choice([3, 8, 15, 19, 20, 21, 22, 30, 39, 40, 41, 42])
        if rng.random() < 0.5:
            body = rng.choice(DEEP_OPEN) * k
        else:
            body = "".join(rng.choice(DEEP_OPEN) for _ in range(k))
        closers = ")" * rng.choice([0, 0, 1, k // 2, k])
        out.append(rng.choice(["", "%put ", "x=", "%let v=", "%macro q; "]) + body + rng.choice(DEEP_TAIL) + closers + rng.choice(DEEP_TAIL))
    return out


# ----------------------------------------------------------------------------- datalines family (C01, C03, C04, C11)

DL_KW = ["datalines", "cards", "lines", "datalines4", "cards4", "lines4", "DataLines4", "CARDS"]
DL_PIECES = [";", ";;", ";;;", "a", " ", "\n", "é", "🔥", "€", "ab", "1 2", "\r\n", "\t", "中", "x;y", "'", "\"", "%let", "&v", "/*", "*"]


def dl_family(rng, n):
    out = []
    # every alignment of a multi-byte character within four bytes after a ';' in the data
    for kw in ("datalines4", "cards4", "lines4", "datalines"):
        for pad in ("", "a", "ab", "abc", " ", "é", "éa"):
            for mb in ("é", "éé", "€", "🔥", "中é"):
                for term in ("\n;;;;\nrun;", "\n;\n", "", ";;;;"):
                    out.append("%s;\nRen%s;%s%s%s" % (kw, mb, pad, mb, term))
    for _ in range(n):
        kw = rng.choice(DL_KW)
        data = "".join(rng.choice(DL_PIECES) for _ in range(rng.randint(0, 8)))
        term = rng.choice([";;;;", ";", "", ";;", ";;;", "\n;;;;\n", "\n;\n"])
        pre = rng.choice(["", "data a; input x; ", ";", "x ", "/*c*/", "é;", "\n"])
        post = rng.choice(["", "run;", " x", "* c;", "\n", "é"])
        out.append(pre + kw + rng.choice(["", " ", "\n"]) + ";" + data + term + post)
    return out

# ----------------------------------------------------------------------------- C18 family

SEP_STATS = ["%let a=1;", "%put x;", "%if 1 %then", "%else", "%do;", "%end;", "%macro m;", "%mend;", "%global g;",
             "%local l;", "%goto l;", "%lbl:", "%lbl :", "%lbl\n:", "%lbl /*c*/\n :", "%lbl\n\n:;", "%return;", "%abort;", "%symdel a;", "%syscall f();",
             "%sysexec ls;", "%copy m / s;", "%input;", "%window w;", "%display w;", "%syslput a=b;", "%sysrput a=b;",
             "%sysmacdelete m;", "%sysmstoreclear;", "%do i=1 %to 2;", "%do %while(1);", "%include f;", "%list;",
             "%run;", "%to", "%by", "%then", "%while(1)", "%until(1)"]
SEP_GLUE = ["", " ", ";", "; ", "a ", "a=1 ", "data x; ", "\n", "/*c*/", "%m ", "%m() ", "\"s\" ", "&v ", ") ", "( ",
            "%then ", "%else ", "x %then ", "%str(a) ", "'s'", "1 ", "%* c; ", "* c; ", "%m(", "\"", "%eval(1) "]


def sep_family(rng, n):
    out = []
    for _ in range(n):
        k = rng.randint(1, 5)
        parts = []
        for _ in range(k):
            parts.append(rng.choice(SEP_GLUE))
            parts.append(rng.choice(SEP_STATS))
        parts.append(rng.choice(SEP_GLUE))
        out.append("".join(parts))
    return out


# ----------------------------------------------------------------------------- C11 family

OC_CHARS = [" ", "\n", "\t", ";", ",", ".", "=", "*", "/", "+", "-", "<", ">", "^", "~", "\u00ac", "\u2218", "|",
            "!", "\u00a6", "(", ")", "{", "}", "[", "]", ":", "$", "@", "#", "?", "&", "%", "'", "\"", "a", "x", "e",
            "d", "t", "_", "0", "1", "9", "\u00e9", "\u4e2d", "\U0001F525", "\u00a0", "\\", "`", "\x0b"]
OC_SMALL = [" ", "\n", ";", ".", "=", "*", "/", "'", "\"", "a", "x", "1", "e", "$", "&", "%", "<", ">", "\u00e9", "d", "t"]
OC_WORDS = ["data", "set", "run", "datalines", "cards", "lines", "datalines4", "cards4", "lines4", ";;;;", "input", "_all_",
            "corresponding", "exec", "and", "eq", "in", "not", "abcdefghijklmn", "correspondingx", "1e5", "0ffx", "1.5",
            "$char10.", "$f.", "'a'dt", "\"a\"x", "'1g'x", "/*c*/", "/*", "*/", "**", "<>", "><", "=*", "^=", "||",
            "!!", "\u00a6\u00a6", "<=", ">=", "&&", "%%", "% ", "& ", "%1", "&1", "%=", "''", '""']


def macro_free(s):
    import re
    def ns(ch):
        return ch == "_" or ch.isidentifier()
    for i, ch in enumerate(s):
        if ch == "%" and i + 1 < len(s) and (s[i + 1] == "*" or ns(s[i + 1])):
            return False
        if ch == "&":
            j = i
            while j < len(s) and s[j] == "&":
                j += 1
            if j < len(s) and ns(s[j]):
                return False
    return True


def oc_family(rng, n, exh_full=2, exh_small=3):
    import itertools
    out = []
    for ln in range(1, exh_full + 1):
        for tup in itertools.product(OC_CHARS, repeat=ln):
            out.append("".join(tup))
    for ln in range(exh_full + 1, exh_small + 1):
        for tup in itertools.product(OC_SMALL, repeat=ln):
            out.append("".join(tup))
    pool = OC_CHARS + OC_WORDS
    # datalines blocks in and out of statement position, terminated or not, with followers
    for kw in ["datalines", "CARDS", "lines", "datalines4", "Cards4", "lines4"]:
        for pre in ["", ";", "x ", "a;", "/*c*/", "*c;", "x;\n"]:
            for ws in ["", " ", "\n "]:
                for data in ["", "\n1 2\n", "a;b", ";;;", "\u00e9;;"]:
                    for term in ["", ";", ";;;;", ";;"]:
                        for post in ["", "* c;", " x", ";ab", "*"]:
                            if rng.random() < 0.12:
                                out.append(pre + kw + ws + ";" + data + term + post)
    for _ in range(n):
        k = rng.randint(2, 10)
        out.append("".join(rng.choice(pool) if rng.random() < 0.85 else rng.choice([" ", ";", "\n"]) for _ in range(k)))
    return [s for s in out if macro_free(s)]


# ----------------------------------------------------------------------------- near-miss keywords

KW_NEAR_CTX = ["%let r=%eval({} = 1);", "%if a {} b %then;", "x = a {} b;", "%let r=%sysevalf(1 {} 2);"]


def kw_near_family(rng, n):
    """Every one-letter substitution of an expression mnemonic, standing alone where the mnemonic could stand
    (deterministic; does not consume the caller's generator): a keyword token must spell its keyword."""
    import random as _r
    own = _r.Random(1606)
    words = []
    for m in ["eq", "ne", "lt", "le", "gt", "ge", "in", "and", "or", "not"]:
        for pos in range(len(m)):
            for c in "abcdefghijklmnopqrstuvwxyz":
                wd = m[:pos] + c + m[pos + 1:]
                if wd != m:
                    words.append(wd)
                    words.append(wd.upper() if own.random() < 0.5 else wd.capitalize())
    out = [ctx.format(wd) for wd in words for ctx in KW_NEAR_CTX]
    if n < len(out):
        out = own.sample(out, n)
    return out
