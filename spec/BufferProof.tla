---------------------------- MODULE BufferProof ----------------------------
(***************************************************************************)
(* C05, unbounded: for EVERY buffer satisfying the two facts the formulas   *)
(* of buffer.rs rely on (token starts are non-decreasing; a token's line   *)
(* index designates a line that starts at or before the token), the bulk   *)
(* view of a token equals what the accessors return.  Checked by tlapm     *)
(* (SMT back end); MC_Views.tla checks the same by enumeration for small   *)
(* buffers.  ViewsMatchTextThm below relates both to the reference.        *)
(***************************************************************************)
EXTENDS Buffer, TLAPS

TokRec == [c : Int, line : Nat]
BufOK(B) ==
  /\ B.toks \in Seq(TokRec)
  /\ B.lines \in Seq(Int)
  /\ \A j \in 1..Len(B.toks) :
        /\ B.toks[j].line + 1 \in 1..Len(B.lines)
        /\ B.lines[B.toks[j].line + 1] <= B.toks[j].c
  /\ \A j \in 1..(Len(B.toks) - 1) : B.toks[j].c <= B.toks[j+1].c

THEOREM ViewsAgreeThm ==
  ASSUME NEW B, BufOK(B), NEW i \in 1..NTok(B)
  PROVE  Bulk(B, i) = Acc(B, i)
<1> USE DEF BufOK, TokRec, NTok, Start, End
<1>1. CASE i = NTok(B)
  BY <1>1 DEF Bulk, Acc, BulkEndLineIdx, AccEndLine, AccEndCol, AccStartLine, AccStartCol
<1>2. CASE i < NTok(B)
  <2> DEFINE nx == B.toks[i+1]
  <2>1. /\ i + 1 \in 1..Len(B.toks) /\ i \in 1..(Len(B.toks) - 1)
        /\ nx.line \in Nat /\ nx.c \in Int /\ B.toks[i].c \in Int
        /\ nx.line + 1 \in 1..Len(B.lines)
        /\ B.lines[nx.line + 1] \in Int
        /\ B.lines[nx.line + 1] <= nx.c
        /\ B.toks[i].c <= nx.c
    BY <1>2
  <2>2. BulkEndLineIdx(B, i) + 1 = AccEndLine(B, i)
    BY <1>2, <2>1 DEF BulkEndLineIdx, AccEndLine, AccStartLine
  <2> QED
    BY <1>2, <2>1, <2>2 DEF Bulk, Acc, AccEndCol, AccStartLine, AccStartCol
<1> QED
  BY <1>1, <1>2

(***************************************************************************)
(* Second theorem: the accessors equal the text-derived reference of       *)
(* DESIGN.md 7.1 (line of a position = the last line starting at or before *)
(* it; a token ends on the line of its last character) for every buffer    *)
(* whose line starts are strictly increasing and whose tokens carry the    *)
(* index of the line they start on.                                        *)
(***************************************************************************)
\* the line (1-based) of position p is l
IsLineOf(B, p, l) == /\ l \in 1..Len(B.lines) /\ B.lines[l] <= p
                     /\ (l = Len(B.lines) \/ B.lines[l+1] > p)
BufOK2(B) ==
  /\ B.toks \in Seq(TokRec)
  /\ B.lines \in Seq(Int)
  /\ Len(B.lines) >= 1
  /\ \A a, b \in 1..Len(B.lines) : a < b => B.lines[a] < B.lines[b]
  /\ \A j \in 1..Len(B.toks) : IsLineOf(B, B.toks[j].c, B.toks[j].line + 1)
  /\ \A j \in 1..(Len(B.toks) - 1) : B.toks[j].c <= B.toks[j+1].c

LEMMA LineUnique ==
  ASSUME NEW B, BufOK2(B), NEW p \in Int, NEW l \in 1..Len(B.lines), IsLineOf(B, p, l)
  PROVE  LineOfPos(B, p) = l
<1>0. Len(B.lines) \in Nat /\ l \in Int  BY DEF BufOK2
<1>1. \A k \in 1..Len(B.lines) : IsLineOf(B, p, k) => k = l
  <2> SUFFICES ASSUME NEW k \in 1..Len(B.lines), IsLineOf(B, p, k), k # l PROVE FALSE
    OBVIOUS
  <2>1. CASE k < l
    <3>1. k + 1 \in 1..Len(B.lines) /\ k + 1 <= l  BY <2>1, <1>0
    <3>2. B.lines[k+1] <= B.lines[l]  BY <3>1 DEF BufOK2
    <3> QED BY <2>1, <3>1, <3>2 DEF IsLineOf, BufOK2
  <2>2. CASE l < k
    <3>1. l + 1 \in 1..Len(B.lines) /\ l + 1 <= k  BY <2>2, <1>0
    <3>2. B.lines[l+1] <= B.lines[k]  BY <3>1 DEF BufOK2
    <3> QED BY <2>2, <3>1, <3>2 DEF IsLineOf, BufOK2
  <2> QED BY <2>1, <2>2
<1>2. \E k \in 1..Len(B.lines) : IsLineOf(B, p, k)  OBVIOUS
<1> QED BY <1>1, <1>2 DEF LineOfPos, IsLineOf

THEOREM ViewsMatchTextThm ==
  ASSUME NEW B, BufOK2(B), NEW i \in 1..NTok(B)
  PROVE  Acc(B, i) = Ref(B, i)
<1> DEFINE s == Start(B, i)
           e == End(B, i)
           n == Len(B.lines)
<1>0. /\ n \in Nat /\ n >= 1 /\ Len(B.toks) \in Nat /\ i \in 1..Len(B.toks)
      /\ B.toks[i] \in TokRec /\ s \in Int /\ B.toks[i].line \in Nat
      /\ IsLineOf(B, s, B.toks[i].line + 1)
  BY DEF BufOK2, NTok, Start, TokRec
<1>1. LineOfPos(B, s) = B.toks[i].line + 1
  BY <1>0, LineUnique DEF IsLineOf
<1>2. CASE i = NTok(B)
  <2>1. e = s  BY <1>2 DEF End, Start, NTok
  <2> QED BY <1>0, <1>1, <1>2, <2>1 DEF Acc, Ref, AccStartLine, AccStartCol, AccEndLine, AccEndCol, Start, End, NTok
<1>3. CASE i < NTok(B)
  <2> DEFINE nx == B.toks[i+1]
  <2>0. /\ i + 1 \in 1..Len(B.toks) /\ i \in 1..(Len(B.toks) - 1)
        /\ nx \in TokRec /\ nx.c \in Int /\ nx.line \in Nat
        /\ e = nx.c /\ s <= e
        /\ IsLineOf(B, nx.c, nx.line + 1)
    BY <1>0, <1>3 DEF BufOK2, NTok, Start, End, TokRec
  <2>1. CASE s = e
    <3>1. LineOfPos(B, s) = nx.line + 1
      BY <1>0, <2>0, <2>1, LineUnique DEF IsLineOf
    <3>2. nx.line = B.toks[i].line  BY <1>1, <3>1, <1>0, <2>0
    <3>3. AccEndLine(B, i) = nx.line + 1  BY <1>3, <2>0, <2>1 DEF AccEndLine, Start, End, NTok
    <3> QED BY <1>0, <1>1, <1>3, <2>0, <2>1, <3>1, <3>2, <3>3 DEF Acc, Ref, AccStartLine, AccStartCol, AccEndCol
  <2>2. CASE s < e /\ nx.c > B.lines[nx.line + 1]
    <3>1. IsLineOf(B, e - 1, nx.line + 1)
      BY <1>0, <2>0, <2>2 DEF IsLineOf, BufOK2
    <3>2. LineOfPos(B, e - 1) = nx.line + 1
      BY <1>0, <2>0, <3>1, LineUnique DEF IsLineOf
    <3>3. AccEndLine(B, i) = nx.line + 1  BY <1>3, <2>0, <2>2 DEF AccEndLine, Start, End, NTok
    <3> QED BY <1>0, <1>1, <1>3, <2>0, <2>2, <3>2, <3>3 DEF Acc, Ref, AccStartLine, AccStartCol, AccEndCol
  <2>3. CASE s < e /\ ~(nx.c > B.lines[nx.line + 1])
    <3>0. nx.line + 1 \in 1..n /\ B.lines[nx.line + 1] <= nx.c /\ B.lines[nx.line + 1] \in Int
      BY <1>0, <2>0 DEF IsLineOf, BufOK2
    <3>1. nx.c = B.lines[nx.line + 1]  BY <2>0, <2>3, <3>0
    <3>2. B.toks[i].line + 1 \in 1..n /\ B.lines[B.toks[i].line + 1] <= s /\ B.lines[B.toks[i].line + 1] \in Int
      BY <1>0 DEF IsLineOf, BufOK2
    <3>3. B.toks[i].line + 1 < nx.line + 1
      <4>1. B.lines[B.toks[i].line + 1] < B.lines[nx.line + 1]  BY <1>0, <2>0, <2>3, <3>1, <3>2, <3>0
      <4>2. ~(nx.line + 1 < B.toks[i].line + 1)  BY <4>1, <3>0, <3>2 DEF BufOK2
      <4>3. nx.line + 1 # B.toks[i].line + 1  BY <4>1
      <4> QED BY <4>2, <4>3, <1>0, <2>0
    <3>4. nx.line \in 1..n /\ nx.line < nx.line + 1  BY <3>3, <3>0, <1>0, <2>0
    <3>5. B.lines[nx.line] < B.lines[nx.line + 1] /\ B.lines[nx.line] \in Int
      BY <3>4, <3>0 DEF BufOK2
    <3>6. IsLineOf(B, e - 1, nx.line)
      BY <1>0, <2>0, <3>1, <3>4, <3>5 DEF IsLineOf
    <3>7. LineOfPos(B, e - 1) = nx.line
      BY <1>0, <2>0, <3>4, <3>6, LineUnique DEF IsLineOf
    <3>8. AccEndLine(B, i) = nx.line  BY <1>3, <2>0, <2>3 DEF AccEndLine, Start, End, NTok
    <3> QED BY <1>0, <1>1, <1>3, <2>0, <2>3, <3>7, <3>8 DEF Acc, Ref, AccStartLine, AccStartCol, AccEndCol
  <2> QED BY <2>0, <2>1, <2>2, <2>3
<1> QED BY <1>0, <1>2, <1>3 DEF NTok
=============================================================================
