-------------------------------- MODULE Gen --------------------------------
(***************************************************************************)
(* The construct grammar of DESIGN.md 7.6 as a nondeterministic pushdown   *)
(* generator.  A state is a stack of grammar items still to be emitted;    *)
(* a step expands the top item by one production or emits a terminal.      *)
(* While emitting, the generator records *expectations* (what a delimiter  *)
(* or operator at a known offset must be lexed as) and may skip exactly    *)
(* one mandatory delimiter (deletion fault).  TLC enumerates derivations   *)
(* (bounded by Fuel) or samples them with -simulate; every completed       *)
(* derivation is printed as one JSON line and replayed on the real lexer.  *)
(*                                                                         *)
(* Items:                                                                  *)
(*   <<"t", text>>               terminal text                             *)
(*   <<"d", text, type, chan, fk>>  delimiter/operator: expected to be a   *)
(*                               token of that type and channel; fk # ""   *)
(*                               marks a deletable mandatory delimiter     *)
(*   <<"x", text>>               text whose , = ; ( ) must lie inside (or  *)
(*                               be) a non-delimiter token                 *)
(*   <<"w">>                     insignificant white space / comment site  *)
(*   <<"wb">>                    the same, blanks only (after an           *)
(*                               expression: a comment directly after an   *)
(*                               operand is a documented limitation)       *)
(*   <<"c", text>>               comment text (does not end a statement    *)
(*                               for the datalines look-behind)            *)
(*   <<"W">>                     the same, but not empty                   *)
(*   <<"n", Nonterminal>>        nonterminal                               *)
(*   <<"close", fk>>             closing ")" of a call; fk = "rparen"      *)
(***************************************************************************)
EXTENDS Integers, Sequences, FiniteSets, TLC, Json

CONSTANTS Fuel,        \* bound on the number of recursive expansions
          AllowFault,  \* BOOLEAN: may one mandatory delimiter be skipped
          Small,       \* BOOLEAN: one representative per lexical class (for exhaustive enumeration)
          Focus        \* "" : whole programs; a nonterminal name: programs that start with that construct in three contexts

VARIABLES stack, out, off, exps, fuel, fault, lastSemi, lvl, done

vars == <<stack, out, off, exps, fuel, fault, lastSemi, lvl, done>>

T(s) == <<"t", s>>
D(s, ty) == <<"d", s, ty, "DEFAULT", "">>
DF(s, ty, fk) == <<"d", s, ty, "DEFAULT", fk>>
DH(s, ty, fk) == <<"d", s, ty, "HIDDEN", fk>>
X(s) == <<"x", s>>
NT(s) == <<"n", s>>
w == <<"w">>
\* the ")" of a parenthesis nested in argument text: text, or (once) the place where the program is cut short
XC == <<"xclose">>
wb == <<"wb">>
W == <<"W">>
C(s) == <<"c", s>>

Pick(S, one) == IF Small THEN {one} ELSE S
\* (names longer than the longest keyword, 14 characters for macro keywords, take a separate path in the lexer)
Names  == Pick({"a", "b1", "x_y", "_ds", "_", "a_name_of_thirty_two_characters_", "corresponding_x"}, "a")
MNames == Pick({"m", "mac2", "_cleanup", "number_of_observations", "abcdefghijklmno", "abcdefghijklmn"}, "m")
Words  == Pick({"abc", "x1", "q", "supercalifragilistic"}, "abc")
Ints   == Pick({"0", "7", "42"}, "7")

WsAlts  == IF Small THEN {"", " /*c*/ "} ELSE {"", " ", "\n", "/*c*/", " /*c*/ "}
WsAltsNE == WsAlts \ {""}
WsBlank == IF Small THEN {"", " "} ELSE {"", " ", "\n"}

\* ---------------------------------------------------------------- grammar
\* recursive nonterminals consume fuel
Recursive == {"ArgStmt", "Prog", "Stmt", "MacroStmt", "MacroDef", "DoBlock", "Call", "Builtin", "Value", "ValueRest",
              "ArgList", "ArgRest", "Expr", "ExprM", "TailExprM", "ExprRest", "Operand", "DQBody", "TextExpr", "TextRest", "Branch",
              "OpenRest", "StrText", "ParamRest", "EvalArgsRest", "ManyRest", "Balanced"}

Seq1(S) == {<<x>> : x \in S}

SymOps == IF Small THEN {<<"+", "PLUS">>, <<"=", "ASSIGN">>, <<"**", "STAR2">>} ELSE
          {<<"+", "PLUS">>, <<"-", "MINUS">>, <<"*", "STAR">>, <<"**", "STAR2">>, <<"/", "FSLASH">>,
           <<"<", "LT">>, <<">", "GT">>, <<"<=", "LE">>, <<">=", "GE">>, <<"=", "ASSIGN">>,
           <<"^=", "NE">>, <<"~=", "NE">>, <<"#", "HASH">>, <<"|", "PIPE">>}
PctOps == IF Small THEN {<<"*", "STAR">>} ELSE {<<"+", "PLUS">>, <<"-", "MINUS">>, <<"*", "STAR">>}
MnemOps == IF Small THEN {<<"eq", "KwEQ">>, <<"and", "KwAND">>} ELSE
           {<<"eq", "KwEQ">>, <<"NE", "KwNE">>, <<"lt", "KwLT">>, <<"le", "KwLE">>, <<"gt", "KwGT">>,
            <<"GE", "KwGE">>, <<"and", "KwAND">>, <<"or", "KwOR">>, <<"in", "KwIN">>}

\* (every spelling of a family: plain, Q, K and QK variants are routed one by one in the lexer)
OneArgKw  == IF Small THEN {"%upcase"} ELSE {"%upcase", "%qupcase", "%kupcase", "%qkupcase", "%length", "%klength", "%index", "%kindex",
              "%bquote", "%nrbquote", "%quote", "%nrquote", "%superq", "%unquote", "%symexist", "%symglobl", "%symlocal", "%sysget",
              "%qlowcase", "%qklowcase", "%sysprod", "%sysmacexec", "%sysmacexist"}
ManyArgKw == Pick({"%cmpres", "%qcmpres", "%kcmpres", "%qkcmpres", "%left", "%qleft", "%kleft", "%qkleft", "%trim", "%qtrim", "%ktrim",
                   "%qktrim", "%datatyp", "%lowcase", "%klowcase"}, "%cmpres")
NamedArgKw == Pick({"%compstor", "%validchs", "%verify", "%kverify"}, "%verify")
ScanKw == Pick({"%scan", "%qscan", "%kscan", "%qkscan"}, "%scan")
SubstrKw == Pick({"%substr", "%qsubstr", "%ksubstr", "%qksubstr"}, "%substr")
OptStats == Pick({"%abort", "%symdel", "%input", "%display"}, "%abort")
SemiStats == Pick({"%return", "%run", "%sysmstoreclear"}, "%return")

Prods(sym, rich) ==
  CASE sym = "Prog" ->
         {<<>>} \cup (IF rich THEN {<<w, NT("Stmt"), NT("Prog")>>} ELSE {})
    [] sym = "Stmt" ->
         {<<NT("OpenStmt")>>, <<NT("StarComment")>>, <<NT("Datalines")>>}
         \cup (IF ~AllowFault THEN {<<NT("PctComment")>>} ELSE {})
         \cup (IF rich THEN {<<NT("MacroStmt")>>, <<NT("MacroStmt")>>, <<NT("MacroDef")>>} ELSE {})
    [] sym = "OpenStmt" ->
         {<<NT("OpenFirst"), NT("OpenRest"), w, T(";")>>}
    [] sym = "OpenFirst" ->
         Seq1({T(n) : n \in Names}) \cup {<<T("data")>>, <<T("run")>>, <<T("x")>>}
    [] sym = "OpenRest" ->
         {<<>>} \cup (IF rich THEN {<<T(" "), NT("OpenItem"), NT("OpenRest")>>} ELSE {})
    [] sym = "OpenItem" ->
         Seq1({T(n) : n \in Names}) \cup
         {<<T("set")>>, <<T("42")>>, <<T("1.5")>>, <<T("0ffx")>>, <<T("=")>>, <<T("+")>>, <<T("*")>>,
          <<T("<=")>>, <<T("||")>>, <<T(",")>>, <<T("$char10.")>>, <<NT("SQuoted")>>, <<NT("DQuoted")>>,
          <<NT("MVarRef")>>, <<NT("Call")>>}
    [] sym = "StarComment" ->
         {<<C("* note, a=b (c) 'd ;")>>, <<C("*;")>>, <<C("** x ;")>>}
    \* a macro comment ends at the first semicolon outside a quoted string; the other quote inside a string is text
    [] sym = "PctComment" ->
         {<<C("%* note \"it's; masked\" end;")>>, <<C("%* a 'x\"; y' b;")>>, <<C("%*;")>>}
    [] sym = "Datalines" ->
         {<<NT("DlKw"), w0, T(";"), T(dt), T(";")>> :
             w0 \in {T(""), T(" "), T("\n")}, dt \in {"", "\n1 2\n3 'x\n", " a %let b &c \"\n"}}
         \cup
         {<<NT("DlKw4"), T(";"), T(dt), T(";;;;")>> : dt \in {"", "\na;b;;\n", "x ;;; y\n"}}
    [] sym = "DlKw"  -> {<<T("datalines")>>, <<T("CARDS")>>, <<T("Lines")>>}
    [] sym = "DlKw4" -> {<<T("datalines4")>>, <<T("cards4")>>, <<T("LINES4")>>}
    [] sym = "MVarRef" ->
         {<<T("&mv")>>, <<T("&mv.")>>, <<T("&&mv&i")>>, <<T("&&&mv")>>, <<T("&mv..")>>, <<T("&&pre&i..")>>,
          <<T("&mv&&&i")>>, <<T("&&mv&&&&&i.")>>, <<T("&&&&&&&mv")>>}
    [] sym = "SQuoted" ->
         {<<X("'a'")>>, <<X("'a''b'")>>, <<X("'x=1,y;(z'")>>, <<X("''")>>, <<X("'a'n")>>, <<X("'01jan2020'd")>>,
          <<X("'1f'x")>>, <<X("'a'dt")>>}
    [] sym = "DQuoted" ->
         {<<X("\""), NT("DQBody"), X("\""), T(sfx)>> : sfx \in {"", "", "n", "d", "dt", "t", "b"}}
    [] sym = "DQBody" ->
         {<<>>} \cup
         (IF rich THEN {<<X("a"), NT("DQBody")>>, <<X(" x=1, (y); "), NT("DQBody")>>, <<X("\"\""), NT("DQBody")>>,
                        <<NT("MVarRef"), NT("DQBody")>>, <<NT("CallNoArgText"), NT("DQBody")>>,
                        <<NT("CallArgs"), NT("DQBody")>>, <<NT("Builtin"), NT("DQBody")>>}
          ELSE {<<X("a")>>})
    \* a call without arguments inside text: what follows must not look like arguments
    [] sym = "CallNoArgText" -> {<<T("%" \o m), X(";")>> : m \in MNames}
    [] sym = "Call" ->
         {<<T("%" \o m)>> : m \in MNames} \cup {<<NT("CallArgs")>>, <<NT("Builtin")>>}
    [] sym = "CallArgs" ->
         {<<T("%" \o m), w, DF("(", "LPAREN", "callp"), w, NT("ArgList"), <<"close", "rparen", "DEFAULT">>>> : m \in MNames}
    [] sym = "ArgList" ->
         {<<NT("Arg"), NT("ArgRest")>>}
    [] sym = "ArgRest" ->
         {<<>>} \cup (IF rich THEN {<<D(",", "COMMA"), w, NT("Arg"), NT("ArgRest")>>} ELSE {})
    [] sym = "Arg" ->
         {<<>>, <<NT("Value")>>, <<NT("Value")>>} \cup
         {<<T(n), w, D("=", "ASSIGN"), w, NT("Value")>> : n \in Names} \cup
         {<<T(n), w, D("=", "ASSIGN")>> : n \in Names} \cup
         \* argument names built from macro elements: a call without parentheses, a reference, a prefix before either
         (IF rich THEN {<<T("%" \o m), D("=", "ASSIGN"), NT("Value")>> : m \in MNames} \cup
                       {<<T("pre"), T("%" \o m), D("=", "ASSIGN"), w, NT("Value")>> : m \in MNames} \cup
                       {<<T("%" \o m), T(" "), D("=", "ASSIGN"), NT("Value")>> : m \in MNames} \cup
                       {<<T("&mv"), D("=", "ASSIGN"), NT("Value")>>, <<T("a&mv.b"), w, D("=", "ASSIGN"), NT("Value")>>}
          ELSE {})
    [] sym = "Value" ->
         {<<NT("ValueHead"), NT("ValueRest")>>}
    [] sym = "ValueHead" ->
         \* (a call without arguments must not be followed by "(": CallNoArgText ends in a safe character)
         Seq1({X(wd) : wd \in Words}) \cup {<<X("("), NT("Balanced"), XC>>, <<NT("SQuoted")>>, <<NT("DQuoted")>>,
          <<NT("MVarRef")>>, <<NT("CallArgs")>>, <<NT("Builtin")>>, <<NT("CallNoArgText")>>, <<NT("StrCall")>>, <<X("1")>>}
    [] sym = "ValueRest" ->
         {<<>>} \cup
         (IF rich THEN {<<X(" "), NT("ValueHead"), NT("ValueRest")>>, <<NT("ValuePiece"), NT("ValueRest")>>} ELSE {}) \cup
         \* a literal percent sign as the last character of a value: the delimiter that ends the value comes right after it
         \* (not in programs with a deleted delimiter, where the next thing could be a name)
         \* (likewise a slash that does not open a comment: after a reference, literal or call it is met by the mode
         \*  dispatcher, not by the text scanner, and the delimiter right after it is still a delimiter)
         (IF rich /\ ~AllowFault THEN {<<X("%")>>, <<X("/")>>} ELSE {})
    [] sym = "ValuePiece" ->
         \* (a quoted literal glued to a preceding one of the same quote would be one literal with a doubled quote:
         \*  quoted pieces are separated from what precedes them)
         {<<X("("), NT("Balanced"), XC>>, <<X("-"), NT("SQuoted")>>, <<X("-"), NT("DQuoted")>>,
          <<NT("MVarRef"), NT("SQuoted")>>, <<NT("MVarRef"), NT("DQuoted")>>, <<NT("MVarRef")>>,
          <<NT("StrCall")>>, <<X("-2")>>, <<NT("ArgStmt")>>}
    \* a macro statement inside an argument value (glued to what precedes it)
    [] sym = "ArgStmt" ->
         {<<T("%let"), W, NT("NameExpr"), w, DF("=", "ASSIGN", "assign"), w, NT("OptText"), D(";", "SEMI")>>,
          <<T("%put"), NT("OptSpText"), D(";", "SEMI")>>,
          <<T("%do"), w, D(";", "SEMI"), X("c"), T("%end"), w, DF(";", "SEMI", "semi")>>,
          <<T("%if"), W, NT("Expr"), wb, T("%then"), W, X("t")>>}
    [] sym = "Balanced" ->
         {<<>>, <<X("a,b")>>, <<X("x=1;y")>>, <<X(", ")>>} \cup
         (IF rich THEN {<<X("("), NT("Balanced"), XC, NT("Balanced")>>, <<X("k="), NT("MVarRef")>>,
                        <<X("a "), NT("ArgStmt")>>} ELSE {})
    [] sym = "StrCall" ->
         {<<T(k), w, DH("(", "LPAREN", "lparen"), NT("StrText"), <<"close", "rparen", "HIDDEN">>>> : k \in {"%str", "%nrstr"}}
    [] sym = "StrText" ->
         {<<>>} \cup
         (IF rich THEN {<<X(s), NT("StrText")>> : s \in {"a", " ", ",", ";", "=", "%'", "%\"", "%(", "%)", "%%", "(b,c)", "/", "x=1;"}}
          ELSE {<<X("a;b")>>})
    [] sym = "Builtin" ->
         {<<T(k), w, DF("(", "LPAREN", "lparen"), w, NT("Expr"), <<"close", "rparen", "DEFAULT">>>> : k \in {"%eval"}} \cup
         {<<T("%sysevalf"), w, DF("(", "LPAREN", "lparen"), w, NT("Expr"), NT("TailValue"), <<"close", "rparen", "DEFAULT">>>>} \cup
         {<<T(k), w, DF("(", "LPAREN", "lparen"), w, NT("Value"), DF(",", "COMMA", "comma"), w, NT("ExprM"),
            NT("TailValue"), <<"close", "scan", "DEFAULT">>>> : k \in ScanKw} \cup
         {<<T(k), w, DF("(", "LPAREN", "lparen"), w, NT("Value"), DF(",", "COMMA", "comma"), w, NT("ExprM"),
            NT("TailExprM"), <<"close", "scan", "DEFAULT">>>> : k \in SubstrKw} \cup
         {<<T(k), w, DF("(", "LPAREN", "lparen"), w, NT("OneArgValue"), <<"close", "rparen", "DEFAULT">>>> : k \in OneArgKw} \cup
         {<<T(k), w, DF("(", "LPAREN", "lparen"), w, NT("Value"), NT("ManyRest"), <<"close", "rparen", "DEFAULT">>>> : k \in ManyArgKw} \cup
         {<<T(k), w, DF("(", "LPAREN", "lparen"), w, NT("ArgList"), <<"close", "rparen", "DEFAULT">>>> : k \in NamedArgKw} \cup
         {<<T(k), w, DF("(", "LPAREN", "lparen"), w, T("fname"), w, DF("(", "LPAREN", "callp"), w, NT("EvalArgs"),
            <<"close", "rparen", "DEFAULT">>, w, NT("TailValue"), <<"close", "rparen", "DEFAULT">>>> : k \in {"%sysfunc", "%qsysfunc"}} \cup
         {<<T("%sysmexecdepth")>>}
    [] sym = "TailValue" -> {<<>>, <<D(",", "COMMA"), w, NT("Value")>>}
    [] sym = "TailExpr"  -> {<<>>, <<D(",", "COMMA"), w, NT("Expr")>>}
    [] sym = "TailExprM" -> {<<>>, <<D(",", "COMMA"), w, NT("ExprM")>>}
    \* an expression argument in which parentheses mask commas (%scan/%substr positions, %sysfunc arguments):
    \* a comma nested in balanced parentheses is text, the parentheses are operator tokens
    [] sym = "ExprM" ->
         {<<NT("Expr")>>} \cup
         (IF rich THEN {<<D("(", "LPAREN"), X("1,2"), D(")", "RPAREN"), NT("ExprRest")>>,
                        <<D("(", "LPAREN"), NT("MVarRef"), X(",2"), D(")", "RPAREN"), NT("ExprRest")>>,
                        <<D("(", "LPAREN"), X("a,b;c"), D(")", "RPAREN")>>}
          ELSE {})
    [] sym = "OneArgValue" ->
         {<<NT("Value")>>, <<NT("Value"), X(","), NT("Value")>>, <<X("a,b=c")>>}
    [] sym = "ManyRest" ->
         {<<>>} \cup (IF rich THEN {<<D(",", "COMMA"), w, NT("Value"), NT("ManyRest")>>} ELSE {})
    [] sym = "EvalArgs" -> {<<>>, <<NT("ExprM"), NT("EvalArgsRest")>>}
    [] sym = "EvalArgsRest" ->
         {<<>>} \cup (IF rich THEN {<<D(",", "COMMA"), w, NT("ExprM"), NT("EvalArgsRest")>>} ELSE {})
    [] sym = "Expr" ->
         {<<NT("Operand"), NT("ExprRest")>>}
    [] sym = "ExprRest" ->
         {<<>>} \cup
         (IF rich THEN {<<wb, D(o[1], o[2]), w, NT("Operand"), NT("ExprRest")>> : o \in SymOps} \cup
                       {<<wb, D("&", "AMP"), T(" "), NT("Operand"), NT("ExprRest")>>} \cup
                       {<<T(" "), D(o[1], o[2]), T(" "), NT("Operand"), NT("ExprRest")>> : o \in MnemOps}
          ELSE {})
    [] sym = "Operand" ->
         {<<<<"int", i>>>> : i \in Ints} \cup Seq1({T(wd) : wd \in Words}) \cup
         {<<NT("MVarRef")>>, <<NT("SQuoted")>>, <<NT("DQuoted")>>} \cup
         (IF rich THEN {<<NT("Call")>>, <<D("(", "LPAREN"), w, NT("Expr"), wb, D(")", "RPAREN")>>} ELSE {}) \cup
         (IF rich /\ ~AllowFault THEN
                       \* (not in programs with a deleted delimiter: without the comma before it the percent sign lands
                       \*  in argument text, where %* opens a macro comment and %( is a quoted parenthesis)
                       \* a literal percent is text; the symbol glued to it is still an operator token (only %= %^ %~
                       \* are quoted operators) and a parenthesis glued to it still counts for the nesting
                       {<<T("%"), D(o[1], o[2]), w, NT("Operand")>> : o \in PctOps} \cup
                       {<<T("%"), D("(", "LPAREN"), w, NT("Expr"), wb, D(")", "RPAREN")>>}
          ELSE {})
    [] sym = "NameExpr" ->
         Seq1({T(n) : n \in Names}) \cup {<<NT("MVarName")>>, <<T("pre"), NT("MVarName")>>, <<T("&mv.x")>>,
          <<T("%mac2")>>, <<T("%m(a)")>>, <<T("pre%m")>>, <<T("%m"), NT("MVarName")>>}
    \* in a name a doubled terminator dot has no place
    [] sym = "MVarName" -> {<<T("&mv")>>, <<T("&mv.")>>, <<T("&&mv&i")>>, <<T("&&&mv")>>}
    [] sym = "TextExpr" ->
         {<<NT("TextHead"), NT("TextRest")>>}
    [] sym = "TextHead" ->
         Seq1({T(wd) : wd \in Words}) \cup {<<NT("SQuoted")>>, <<NT("DQuoted")>>, <<NT("MVarRef")>>, <<NT("Call")>>,
          <<NT("StrCall")>>, <<T("1+1")>>, <<T("a=b,c")>>}
    [] sym = "TextRest" ->
         {<<>>} \cup (IF rich THEN {<<T(" "), NT("TextHead"), NT("TextRest")>>, <<T("=&mv.b"), NT("TextRest")>>} ELSE {})
    [] sym = "MacroStmt" ->
         {<<T("%let"), W, NT("NameExpr"), w, DF("=", "ASSIGN", "assign"), w, NT("OptText"), DF(";", "SEMI", "")>>,
          <<T("%put"), NT("OptSpText"), DF(";", "SEMI", "")>>,
          <<T("%sysexec"), NT("OptSpText"), DF(";", "SEMI", "")>>,
          <<T("%local"), W, NT("NameExpr"), NT("MoreNames"), w, DF(";", "SEMI", "")>>,
          <<T("%global"), W, NT("NameExpr"), NT("MoreNames"), w, DF(";", "SEMI", "")>>,
          <<T("%goto"), W, NT("NameExpr"), w, DF(";", "SEMI", "")>>,
          <<T("%lbl"), w, T(":")>>,
          <<T("%copy"), W, NT("NameExpr"), W, DF("/", "FSLASH", "fslash"), NT("OptWords1"), w, DF(";", "SEMI", "")>>,
          <<T("%syscall"), W, T("rname"), w, DF("(", "LPAREN", "callp"), w, NT("EvalArgs"),
            <<"close", "rparen", "DEFAULT">>, w, DF(";", "SEMI", "")>>,
          <<T("%if"), W, NT("Expr"), wb, T("%then"), W, NT("Branch"), NT("ElsePart")>>,
          <<NT("DoBlock")>>} \cup
         {<<T(k), w, DF(";", "SEMI", "semi")>> : k \in SemiStats} \cup
         {<<T(k), NT("OptWords0"), w, DF(";", "SEMI", "")>> : k \in OptStats}
    [] sym = "OptText" -> {<<>>, <<NT("TextExpr")>>, <<NT("TextExpr")>>}
    [] sym = "OptSpText" -> {<<>>, <<W, NT("TextExpr")>>}
    [] sym = "MoreNames" -> {<<>>, <<T(" "), NT("NameExpr")>>}
    [] sym = "OptWords0" -> {<<>>, <<T(" "), T("opt1")>>, <<T(" "), T("opt1"), T(" "), T("k=v")>>}
    [] sym = "OptWords1" -> {<<>>, <<w, T("opt1")>>, <<T(" "), T("opt1"), T(" "), T("des='x'")>>}
    [] sym = "ElsePart" -> {<<>>} \cup (IF rich THEN {<<w, T("%else"), W, NT("Branch")>>} ELSE {})
    [] sym = "Branch" ->
         {<<NT("OpenStmt")>>, <<T("%let"), W, NT("NameExpr"), w, D("=", "ASSIGN"), w, NT("OptText"), D(";", "SEMI")>>,
          <<T("%put"), NT("OptSpText"), D(";", "SEMI")>>} \cup
         (IF rich THEN {<<NT("DoBlock")>>} ELSE {})
    [] sym = "DoBlock" ->
         {<<T("%do"), w, D(";", "SEMI"), NT("Prog"), w, T("%end"), w, DF(";", "SEMI", "semi")>>,
          <<T("%do"), W, NT("NameExpr"), w, DF("=", "ASSIGN", "assign"), w, NT("Expr"), wb, T("%to"), W, NT("Expr"),
            NT("ByPart"), wb, D(";", "SEMI"), NT("Prog"), w, T("%end"), w, DF(";", "SEMI", "semi")>>} \cup
         {<<T("%do"), w, T(k), w, DF("(", "LPAREN", "callp"), w, NT("Expr"), <<"close", "rparen", "DEFAULT">>, w,
            DF(";", "SEMI", "semi"), NT("Prog"), w, T("%end"), w, DF(";", "SEMI", "semi")>> : k \in {"%while", "%until"}}
    [] sym = "ByPart" -> {<<>>, <<wb, T("%by"), W, NT("Expr")>>}
    [] sym = "MacroDef" ->
         {<<T("%macro"), W, T(m), NT("DefParams"), NT("DefOpts"), w, D(";", "SEMI"), NT("Prog"), w,
            T("%mend"), NT("MendName"), w, D(";", "SEMI")>> : m \in MNames}
    [] sym = "DefParams" ->
         {<<>>, <<w, D("(", "LPAREN"), w, <<"close", "", "DEFAULT">>>>,
          <<w, D("(", "LPAREN"), w, NT("Param"), NT("ParamRest"), <<"close", "", "DEFAULT">>>>}
    [] sym = "Param" ->
         \* white space after a default value belongs to the value, after a bare name it is insignificant
         {<<T(n), w>> : n \in Names} \cup {<<T(n), w, D("=", "ASSIGN"), w, NT("OptValue")>> : n \in Names}
    [] sym = "OptValue" -> {<<>>, <<NT("Value")>>}
    [] sym = "ParamRest" ->
         {<<>>} \cup (IF rich THEN {<<D(",", "COMMA"), w, NT("Param"), NT("ParamRest")>>} ELSE {})
    [] sym = "DefOpts" -> {<<>>, <<w, D("/", "FSLASH"), w, T("store"), T(" "), T("des='x'")>>, <<w, D("/", "FSLASH"), T("parmbuff")>>}
    [] sym = "MendName" -> {<<>>, <<T(" "), T("m")>>}
    [] OTHER -> {}

\* ---------------------------------------------------------------- machine
NoFault == [kind |-> "", o |-> 0 - 1, lvl |-> 0, closeAt |-> 0 - 1, trunc |-> FALSE, nopen |-> 0]
\* when the program is cut short: the parentheses still open are the closing items still on the stack
\* (-1: inside a double-quoted string, where the count is not the property's business)
NOpen(st) == IF \E i \in 1..Len(st) : st[i] = X("\"") THEN 0 - 1
             ELSE Cardinality({i \in 1..Len(st) : st[i][1] \in {"close", "xclose"} \/ (st[i][1] = "d" /\ st[i][2] = ")")})
                  \* ... minus those whose opening parenthesis is itself still to come
                  - Cardinality({i \in 1..Len(st) : (st[i][1] = "d" /\ st[i][2] = "(") \/ st[i] = X("(")})

\* initial stacks: a whole program, or (to concentrate random derivations on one construct) the construct
\* Focus as a %let value, as %put text and in open code, followed by a program
Starts ==
  IF Focus = "" THEN {<<w, NT("Stmt"), NT("Prog")>>}
  ELSE IF Focus \in {"MacroDef", "DoBlock", "MacroStmt"} THEN {<<NT(Focus), NT("Prog")>>}
  ELSE {<<T("%let"), T(" "), T("a"), D("=", "ASSIGN"), NT(Focus), D(";", "SEMI"), NT("Prog")>>,
        <<T("%put"), T(" "), NT(Focus), D(";", "SEMI"), NT("Prog")>>,
        <<T("x"), T("="), NT(Focus), T(";"), NT("Prog")>>}
Init ==
  /\ stack \in Starts
  /\ out = <<>> /\ off = 0 /\ exps = <<>>
  /\ fuel = Fuel /\ fault = NoFault /\ lastSemi = TRUE /\ lvl = 0 /\ done = FALSE

Emit(s) == /\ out' = IF s = "" THEN out ELSE Append(out, s)
           /\ off' = off + Len(s)

IsBlankOrComment(s) == s \in WsAlts

\* datalines need a preceding ';' (or the start of the program) on the default channel
DatalinesOK == lastSemi

Expand ==
  /\ stack # <<>> /\ Head(stack)[1] = "n"
  /\ LET sym == Head(stack)[2]
         rich == fuel > 0
         ps == Prods(sym, rich)
     IN /\ (sym = "Datalines" => DatalinesOK)
        /\ \E p \in ps :
              /\ stack' = p \o Tail(stack)
              /\ fuel' = IF sym \in Recursive /\ fuel > 0 THEN fuel - 1 ELSE fuel
        /\ UNCHANGED <<out, off, exps, fault, lastSemi, lvl>>

EmitT ==
  /\ stack # <<>> /\ Head(stack)[1] = "t"
  /\ Emit(Head(stack)[2])
  /\ stack' = Tail(stack)
  /\ lastSemi' = IF Head(stack)[2] = "" THEN lastSemi
                 ELSE SubSeq(Head(stack)[2], Len(Head(stack)[2]), Len(Head(stack)[2])) = ";"
  /\ UNCHANGED <<exps, fuel, fault, lvl>>

EmitX ==
  /\ stack # <<>> /\ Head(stack)[1] = "x"
  /\ Emit(Head(stack)[2])
  /\ exps' = Append(exps, [k |-> "inside", o |-> off, n |-> Len(Head(stack)[2]), ty |-> "", ch |-> ""])
  /\ stack' = Tail(stack)
  /\ lastSemi' = FALSE
  /\ UNCHANGED <<fuel, fault, lvl>>

EmitXClose ==
  /\ stack # <<>> /\ Head(stack)[1] = "xclose"
  /\ \/ /\ Emit(")")
        /\ exps' = Append(exps, [k |-> "inside", o |-> off, n |-> 1, ty |-> "", ch |-> ""])
        /\ stack' = Tail(stack)
        /\ lastSemi' = FALSE
        /\ UNCHANGED fault
     \/ \* cut the program short inside the nested parentheses
        /\ AllowFault /\ fault.kind = ""
        /\ fault' = [kind |-> "rparen", o |-> off, lvl |-> lvl, closeAt |-> 0 - 1, trunc |-> TRUE, nopen |-> NOpen(stack)]
        /\ stack' = <<>>
        /\ UNCHANGED <<out, off, exps, lastSemi>>
  /\ UNCHANGED <<fuel, lvl>>

EmitInt ==
  /\ stack # <<>> /\ Head(stack)[1] = "int"
  /\ Emit(Head(stack)[2])
  /\ exps' = Append(exps, [k |-> "tok", o |-> off, n |-> Len(Head(stack)[2]), ty |-> "IntegerLiteral", ch |-> "DEFAULT"])
  /\ stack' = Tail(stack)
  /\ lastSemi' = FALSE
  /\ UNCHANGED <<fuel, fault, lvl>>

EmitC ==
  /\ stack # <<>> /\ Head(stack)[1] = "c"
  /\ Emit(Head(stack)[2])
  /\ stack' = Tail(stack)
  /\ UNCHANGED <<exps, fuel, fault, lastSemi, lvl>>

EmitW ==
  /\ stack # <<>> /\ Head(stack)[1] \in {"w", "W", "wb"}
  /\ \E s \in (IF Head(stack)[1] = "w" THEN WsAlts ELSE IF Head(stack)[1] = "wb" THEN WsBlank ELSE WsAltsNE) :
        /\ Emit(s)
        /\ exps' = IF s = "" THEN exps ELSE Append(exps, [k |-> "ws", o |-> off, n |-> Len(s), ty |-> s, ch |-> ""])
  /\ stack' = Tail(stack)
  /\ UNCHANGED <<fuel, fault, lastSemi, lvl>>

\* a delimiter: emitted with its expectation, or (once) skipped
EmitD ==
  /\ stack # <<>> /\ Head(stack)[1] = "d"
  /\ LET it == Head(stack) IN
     \/ /\ Emit(it[2])
        /\ exps' = Append(exps, [k |-> "tok", o |-> off, n |-> Len(it[2]), ty |-> it[3], ch |-> it[4]])
        /\ lastSemi' = (it[2] = ";")
        /\ lvl' = IF it[2] = "(" /\ it[5] \in {"lparen", "callp"} THEN lvl + 1 ELSE lvl
        \* a further top-level comma of the same call takes the place of the deleted one
        /\ fault' = IF it[2] = "," /\ fault.kind = "comma" /\ fault.closeAt < 0 /\ fault.lvl = lvl
                      THEN [fault EXCEPT !.kind = "void"] ELSE fault
     \/ /\ AllowFault /\ fault.kind = "" /\ it[5] \in {"assign", "lparen", "comma", "fslash", "semi"}
        \* white space (not empty) separates the omitted delimiter from what precedes it
        \* (starting with a blank: a comment directly after a name continues the name expression)
        /\ (it[5] # "comma" => (out # <<>> /\ out[Len(out)] \in {" ", "\n", " /*c*/ "}))
        /\ fault' = [kind |-> it[5], o |-> off, lvl |-> lvl, closeAt |-> 0 - 1, trunc |-> FALSE, nopen |-> 0]
        /\ UNCHANGED <<out, off, exps, lastSemi, lvl>>
  /\ stack' = Tail(stack)
  /\ UNCHANGED fuel

\* the program is cut short where a delimiter would come, with parentheses still open (outside double quotes)
CutShort ==
  /\ AllowFault /\ fault.kind = ""
  \* (not before an opening parenthesis: the recovery for a built-in call without its "(" supplies a pair of its own)
  /\ stack # <<>> /\ Head(stack)[1] = "d" /\ Head(stack)[2] # "(" /\ NOpen(stack) > 0
  /\ fault' = [kind |-> "rparen", o |-> off, lvl |-> lvl, closeAt |-> 0 - 1, trunc |-> TRUE, nopen |-> NOpen(stack)]
  /\ stack' = <<>>
  /\ UNCHANGED <<out, off, exps, lastSemi, lvl, fuel>>

\* the closing parenthesis of a call
EmitClose ==
  /\ stack # <<>> /\ Head(stack)[1] = "close"
  /\ LET it == Head(stack) IN
     \/ /\ Emit(")")
        /\ exps' = Append(exps, [k |-> "tok", o |-> off, n |-> 1, ty |-> "RPAREN", ch |-> it[3]])
        /\ fault' = IF fault.kind = "comma" /\ fault.closeAt < 0 /\ it[2] = "scan" /\ fault.lvl = lvl
                      THEN [fault EXCEPT !.closeAt = off] ELSE fault
        /\ lvl' = IF it[2] # "" /\ lvl > 0 THEN lvl - 1 ELSE lvl
        /\ stack' = Tail(stack)
        /\ lastSemi' = FALSE
     \/ \* truncate the program right here: a ")" still open at end of input
        /\ AllowFault /\ fault.kind = "" /\ it[2] \in {"rparen", "scan"}
        /\ fault' = [kind |-> "rparen", o |-> off, lvl |-> lvl, closeAt |-> 0 - 1, trunc |-> TRUE, nopen |-> NOpen(stack)]
        /\ stack' = <<>>
        /\ UNCHANGED <<out, off, exps, lastSemi, lvl>>
  /\ UNCHANGED fuel

\* A completed derivation is reported exactly once, from the action that leaves it (TLC
\* evaluates invariants on all successors of a state, also those a simulation does not take;
\* an action is evaluated only for the state the behaviour is actually in).
Finish ==
  /\ stack = <<>> /\ ~done
  /\ PrintT(<<"REPLAY", ToJson([src |-> out, exps |-> exps,
                                fault |-> [kind |-> fault.kind, o |-> fault.o, closeAt |-> fault.closeAt, nopen |-> fault.nopen],
                                len |-> off])>>)
  /\ done' = TRUE
  /\ UNCHANGED <<stack, out, off, exps, fuel, fault, lastSemi, lvl>>

Step == Expand \/ EmitT \/ EmitC \/ EmitX \/ EmitXClose \/ EmitInt \/ EmitW \/ EmitD \/ CutShort \/ EmitClose
Next == (Step /\ UNCHANGED done) \/ Finish

Spec == Init /\ [][Next]_vars

\* bound for exhaustive enumeration: total output length
Bounded == off <= 80 /\ Len(stack) <= 60
=============================================================================
