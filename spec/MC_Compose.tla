----------------------------- MODULE MC_Compose -----------------------------
(***************************************************************************)
(* C15 at the design level.  Whenever the lexer reaches a closed statement *)
(* boundary (initial open-code configuration, last default-channel token   *)
(* none or a SEMI, the text so far ends in the ';' of a SEMI or of a        *)
(* comment statement, nothing unread), a second, fresh lexer may be        *)
(* started on the text that follows.  From then on both run in lockstep    *)
(* on the same lazily chosen continuation B, and everything the first one  *)
(* does must be what the second does, shifted by the extent of the prefix. *)
(***************************************************************************)
EXTENDS MC_SasLexer

VARIABLES S2,    \* the fresh lexer (meaningful when spawned)
          p0,    \* position of the boundary
          n0,    \* tokens / errors / lines / literal bytes of the prefix
          spawned
cvars == <<T, fends, nfr, eof, S, phase, S2, p0, n0, spawned>>

\* the continuation as a text of its own
TB == [cs |-> SubSeq(T.cs, p0 + 1, TLen(T)), cc |-> SubSeq(T.cc, p0 + 1, TLen(T)), cw |-> SubSeq(T.cw, p0 + 1, TLen(T))]

Closed(st) ==
  /\ st.modes = <<MDefault>> /\ st.nest = 0 /\ st.pend = <<0>> /\ ~st.ck.set
  /\ LastDef(st) \in {"None", "SEMI"}
  /\ st.toks # <<>> /\ LastTok(st) \in {"SEMI", "PredictedCommentStat", "MacroComment"}
  /\ st.pos >= 1 /\ At(T, st.pos - 1) = ";"

CInit == Init /\ S2 = InitStateF(0, TRUE) /\ p0 = 0 /\ n0 = <<0, 0, 0, 0>> /\ spawned = FALSE

Spawn ==
  /\ ~spawned /\ phase = "lex" /\ Closed(S)
  /\ spawned' = TRUE /\ p0' = S.pos
  /\ n0' = <<Len(S.toks), Len(S.errs), Len(S.lines), S.nlit>>
  /\ S2' = InitStateF(0, TRUE)
  /\ UNCHANGED <<T, fends, nfr, eof, S, phase>>

CExtend == Extend /\ UNCHANGED <<S2, p0, n0, spawned>>
CLexStep ==
  /\ LexStep
  /\ S2' = IF spawned THEN [Pending(S2, TB, eof) EXCEPT !.la = 0] ELSE S2
  /\ UNCHANGED <<p0, n0, spawned>>
CStartFinalize == StartFinalize /\ UNCHANGED <<S2, p0, n0, spawned>>
CFinStep ==
  /\ FinStep
  /\ S2' = IF ~spawned THEN S2 ELSE IF S2.modes # <<>> THEN FinalizeStep(S2, TB) ELSE EofStep(S2)
  /\ UNCHANGED <<p0, n0, spawned>>
CNext == Spawn \/ CExtend \/ CLexStep \/ CStartFinalize \/ CFinStep
CSpec == CInit /\ [][CNext]_cvars

\* (while Compose holds the fresh lexer's configuration is the first one's; only its look-behind differs)
CView == <<View, spawned, IF spawned THEN LookBehind(S2.toks) ELSE <<>>>>

\* everything after the boundary equals the fresh lexer's output shifted by the prefix
ShiftTokM(t) == [t EXCEPT !.c = @ + p0, !.l = @ + n0[3] - 1, !.ps = IF t.pk = "s" THEN @ + n0[4] ELSE @, !.pe = IF t.pk = "s" THEN @ + n0[4] ELSE @]
Compose ==
  spawned =>
    /\ S.pos = S2.pos + p0
    /\ S.modes = S2.modes /\ S.pend = S2.pend /\ S.nest = S2.nest /\ S.fault = S2.fault
    /\ S.ck.set = S2.ck.set
    /\ (S.ck.set => (S.ck.pos = S2.ck.pos + p0 /\ S.ck.ml = S2.ck.ml /\ S.ck.nt = S2.ck.nt + n0[1]))
    /\ Len(S.toks) = n0[1] + Len(S2.toks)
    /\ \A i \in 1..Len(S2.toks) : S.toks[n0[1] + i] = ShiftTokM(S2.toks[i])
    /\ Len(S.errs) = n0[2] + Len(S2.errs)
    /\ \A i \in 1..Len(S2.errs) : S.errs[n0[2] + i] = [S2.errs[i] EXCEPT !.c = @ + p0, !.lt = @ + n0[1]]
    /\ Len(S.lines) = n0[3] + Len(S2.lines) - 1
    /\ \A i \in 2..Len(S2.lines) : S.lines[n0[3] + i - 1] = S2.lines[i] + p0
    /\ S.nlit = n0[4] + S2.nlit
=============================================================================
