#!/usr/bin/env python3
"""Regenerates /verif/MANIFEST.json from the table below and validates it."""
import json
import os
import subprocess

VERIF = os.path.dirname(os.path.dirname(os.path.abspath(__file__)))

MON_NOTE = ("Trusted base: TLC, the harness (lexrun: runs the real lexer, dumps the public API and the hook "
            "events, computes position tables that the TLA+ side re-checks), Rust's char classification for "
            "non-ASCII characters. Bounded: finite input sets (corpus, seeded soup, TLC-generated families); "
            "not a proof for all inputs.")

CHECKS = {
    "C01": ("model_checking", "8 C01",
            "TLC evaluates the C01 clauses (returns, budget, no internal error, linear output/work, per-step "
            "progress, checkpoint discipline) on traces recorded from the debug-assertion and the optimized build "
            "for corpus, soup and truncation inputs; a panic or budget overrun is data.",
            "TLA+ trace monitoring (TraceMon/Props) of hook-recorded executions, debug+release"),
    "C02": ("model_checking", "8 C02",
            "TLC evaluates tiling, monotonicity, single EOF, boundary, accessor totality and the per-step "
            "'nothing beyond the cursor' clause on recorded results and events of both builds.",
            "TLA+ trace monitoring (TraceMon/Props)"),
    "C03": ("model_checking", "8 C03",
            "TLC checks byte = ByteOff(char) for every token, error, cursor position and every token emitted at "
            "any step, on multi-byte-heavy inputs, both builds.",
            "TLA+ trace monitoring (TraceMon/Props)"),
    "C04": ("model_checking", "8 C04",
            "TLC checks start/end line and column (convention of DESIGN 7.1), line count, error positions, the "
            "line table and the per-step line count against the text, with LF injected into other inputs.",
            "TLA+ trace monitoring (TraceMon/Props)"),
    "C05": ("model_checking", "8 C05",
            "TLC checks that the bulk resolved view has one entry per token and all ten fields equal the "
            "accessor results.",
            "TLA+ trace monitoring (TraceMon/Props)"),
    "C06": ("model_checking", "8 C06, 7.2",
            "TLC evaluates the per-type shape table (spec/Shapes.tla: text shape, payload kind, channel, hidden-channel "
            "rules) on every token of every result; keyword spellings follow the naming rule in spec/Tokens.tla, not the "
            "crate's generated maps.",
            "TLA+ trace monitoring (TraceMon/Shapes)"),
    "C07": ("model_checking", "8 C07, 7.5",
            "TLC recomputes the unquoted value of every literal / string-expression text / %str text from the token "
            "text (spec/Unquote.tla), compares it with the payload, and checks that payload ranges partition the literal "
            "buffer; the %str context of a MacroString comes from the recorded events.",
            "TLA+ trace monitoring (TraceMon/Unquote)"),
    "C08": ("model_checking", "8 C08, 7.4",
            "TLC applies the numeric grammar of spec/Num.tla at every numeric token (extent, type, errors), recomputes "
            "integer values as decimal digit sequences, and checks floats for correct rounding by big-number comparison "
            "with the midpoints to the neighbouring doubles.",
            "TLA+ trace monitoring (TraceMon/Num), digit-sequence arithmetic"),
    "C09": ("model_checking", "8 C09",
            "TLC checks error bounds, last-token anchoring, order and the two-way pairing of 'missing expected' "
            "errors with zero-width recovery tokens.",
            "TLA+ trace monitoring (TraceMon/Props)"),
    "C10": ("model_checking", "8 C10",
            "TLC runs the balance recognisers (string-expression nesting, datalines triple, label colon, "
            "built-in call parenthesis) on every result, with truncations of all inputs.",
            "TLA+ trace monitoring (TraceMon/Props)"),
    "C11": ("model_checking", "8 C11, 7.3",
            "spec/OpenCode.tla is a declarative longest-match reference lexer written from the grammar; TLC runs it on every "
            "macro-free input (membership decided by the TLA+ predicate MacroFree) and compares tokens, channels, offsets and "
            "errors with the real result: all strings up to length 2 over the full open-code alphabet, up to length 3 (4 "
            "thorough) over a reduced one, datalines block templates, random longer texts.",
            "TLA+ reference lexer (OpenCode) vs. recorded results"),
    "C12": ("model_checking", "8 C12, 7.6",
            "TLC derives programs from the construct grammar spec/Gen.tla (random derivations under several fuel bounds); the "
            "real lexer runs on each; TLC checks that no error is reported and that the hook's end-of-input configuration is "
            "the initial one.",
            "TLA+ grammar generator (Gen) -> replay on the lexer -> TLA+ clauses (GenProps)"),
    "C13": ("model_checking", "8 C13, 7.6",
            "The generator records, while emitting, what every delimiter, operator, integer operand, nested/quoted delimiter "
            "character and insignificant white-space site must be lexed as; TLC checks each expectation against the real "
            "token stream.",
            "TLA+ grammar generator with recorded expectations -> replay -> TLA+ clauses (GenProps)"),
    "C14": ("model_checking", "8 C14, 7.6",
            "The generator skips exactly one mandatory delimiter of the listed kinds (or truncates before a closing "
            "parenthesis); TLC computes where the diagnostic is expected from the mutated text and checks the error and the "
            "zero-width recovery token.",
            "TLA+ grammar generator with single-deletion fault action -> replay -> TLA+ clauses (GenProps)"),
    "C15": ("model_checking", "8 C15",
            "TLC evaluates the composition relation (spec/Rel.tla C15_*) on (lex(A+B), lex(A), lex(B)) for prefixes A that the "
            "recorded end-of-input configuration (hook snapshot) shows to be closed, and continuations B from fragments, soup "
            "and corpus.",
            "TLA+ relational trace checking (TraceMon/Rel)"),
    "C16": ("model_checking", "8 C16",
            "TLC compares lex(s) with lex(case variant of s): all 2^n variants of every keyword, mnemonic, suffix, hex/exponent "
            "letter and datalines keyword in context templates, plus random case mangling of other inputs.",
            "TLA+ relational trace checking (TraceMon/Rel)"),
    "C17": ("model_checking", "8 C17",
            "TLC checks the +3/+1 shift relation between lex(s) and lex(BOM+s) for every input of the run.",
            "TLA+ relational trace checking (TraceMon/Rel)"),
    "C18": ("model_checking", "8 C18",
            "The same tree is built with and without the macro_sep feature; TLC checks erase-equality, the error index map and "
            "the MacroSep placement rule on every input.",
            "TLA+ relational trace checking (TraceMon/Rel), two feature builds"),
    "C19": ("model_checking", "8 C19",
            "Debug, release, nightly-toolchain and hook-free builds, 16 concurrent threads (all cases on all threads) and "
            "reversed call order are compared by TLC (C19_same, C19_events); thread schedules are sampled, not enumerated.",
            "TLA+ relational trace checking (TraceMon/Rel) across builds/threads/histories"),
    "C20": ("exploration", "8 C20",
            "The extension is built from a scratch copy (generated enum modules compared byte for byte with the committed "
            "ones), called from python3 on well-formed programs and arbitrary strings; TLC checks on each (native view, Python "
            "view) pair: positional decoding into the declared fields, fidelity to the native view, enum membership, tiling by "
            "code points, line/column rules, payload ranges and unquoted values, and 'always returns' on well-formed programs.",
            "TLA+ clauses (spec/PyBind.tla) on (native, Python) result pairs; file comparison for the generated enums"),
}

DESIGN_LEVEL = {
 'C01': (' Design level: TLC model-checks spec/MC_SasLexer.tla (operational model with lazily chosen input) for NoFault, NoInternalError, CkptDiscipline and the action property Progress in regimes R2 (configuration-exhaustive under a view) and R1 (all inputs up to N fragments). The executions judged are also validated step by step against the operational model (CONF_drift), which is what carries the design-level results over to the code.',
         ' + TLC model checking of the operational model (MC_SasLexer: NoFault, Progress, CkptDiscipline), bound to the code by trace conformance + per-step trace validation of the judged executions'),
 'C02': (' Design level: TokensOrdered and DoneShape model-checked on spec/MC_SasLexer.tla (R2 and R1). The executions judged are also validated step by step against the operational model (CONF_drift), which is what carries the design-level results over to the code.',
         ' + TLC model checking of the operational model (TokensOrdered, DoneShape) + per-step trace validation of the judged executions'),
 'C03': (' The operational model is bound to the byte cursor by conformance (TraceConf ByteDiffs). The executions judged are also validated step by step against the operational model (CONF_drift), which is what carries the design-level results over to the code.',
         ' + byte-offset conformance of the operational model + per-step trace validation of the judged executions'),
 'C04': (" Design level: LinesMatch model-checked on spec/MC_SasLexer.tla (R2 and R1). The model carries the token's line index (conformance per step); the invariant BufferOK (hypotheses of spec/BufferProof.tla) is model-checked. The executions judged are also validated step by step against the operational model (CONF_drift), which is what carries the design-level results over to the code.",
         ' + TLC model checking of the operational model (LinesMatch) + BufferOK + per-step trace validation of the judged executions'),
 'C05': (' Design level: spec/Buffer.tla transcribes the accessor and bulk-view formulas of buffer.rs; TLC (spec/MC_Views.tla) enumerates every buffer satisfying the buffer invariant over small texts and checks ViewsAgree and ViewsMatchText. Unbounded: spec/BufferProof.tla (ViewsAgreeThm, LineUnique, ViewsMatchTextThm; 167 obligations) is checked by tlapm for every buffer satisfying the buffer invariant, and that invariant (BufferOK) is model-checked on the operational model.',
         ' + exhaustive small-scope TLC model check of the buffer views (MC_Views) + TLAPS proof (tlapm) of the view identities'),
 'C06': (" Design level: the shape table is evaluated on the operational model's own result (model leg M06); integer payloads are part of the model and of conformance.",
         " + TLA+ clauses on the model's own result (ModelRec)"),
 'C07': (' Design level: the operational model carries payload kinds, payload ranges and the literal-buffer length (conformance per step); LitPartition is model-checked on spec/MC_SasLexer.tla (R2 and R1). The executions judged are also validated step by step against the operational model (CONF_drift), which is what carries the design-level results over to the code.',
         ' + TLC model checking of the literal-buffer partition (LitPartition) and payload conformance + per-step trace validation of the judged executions'),
 'C09': (" Design level: DoneErrPairs model-checked on spec/MC_SasLexer.tla for all inputs up to N fragments (R1) and in R2. The same clauses are evaluated on the operational model's own result for every input (model leg M09) and the final results of model and implementation are compared (MSAME).",
         ' + TLC model checking of the operational model (DoneErrPairs) + model leg (clauses on ModelRec, MSAME)'),
 'C10': (" Design level: DoneShape and DoneBalanced model-checked on spec/MC_SasLexer.tla (R2 and R1). The same clauses are evaluated on the operational model's own result for every input (model leg M10) and the final results of model and implementation are compared (MSAME).",
         ' + TLC model checking of the operational model (DoneShape, DoneBalanced) + model leg (clauses on ModelRec, MSAME)'),
 'C11': (" Design level: TLC checks OpenCodeEq (operational model = reference lexer, tokens and errors) on every macro-free input of up to 4 open-code fragments. The same clauses are evaluated on the operational model's own result for every input (model leg M11) and the final results of model and implementation are compared (MSAME).",
         ' + TLC model checking of model = reference lexer (OpenCodeEq) + model leg (clauses on ModelRec, MSAME)'),
 'C12': (" The same clauses are evaluated on the operational model's own result for every input (model leg M12) and the final results of model and implementation are compared (MSAME).",
         ' + model leg (clauses on ModelRec, MSAME)'),
 'C13': (" The same clauses are evaluated on the operational model's own result for every input (model leg M13) and the final results of model and implementation are compared (MSAME).",
         ' + model leg (clauses on ModelRec, MSAME)'),
 'C14': (" The same clauses are evaluated on the operational model's own result for every input (model leg M14) and the final results of model and implementation are compared (MSAME).",
         ' + model leg (clauses on ModelRec, MSAME)'),
 'C15': (' Design level: spec/MC_Compose.tla spawns a fresh lexer at every closed boundary and runs both in lockstep on lazily chosen text (invariant Compose).',
         ' + TLC model checking of the lockstep product MC_Compose'),
 'C16': (' Design level: spec/MC_Twin.tla runs the model on a text and on its upper-cased twin in lockstep (invariant TwinSame).',
         ' + TLC model checking of the lockstep product MC_Twin (case)'),
 'C17': (' Design level: spec/MC_Twin.tla runs the model on a text and on its BOM-prefixed twin in lockstep (invariant TwinSame).',
         ' + TLC model checking of the lockstep product MC_Twin (bom)'),
 'C18': (' Design level: spec/MC_SepPair.tla runs the model with and without the feature in lockstep (SameConfiguration, SepErase, SepPlacement, SepPlacementStrict).',
         ' + TLC model checking of the lockstep product MC_SepPair'),
}

NOT_BUILT = {}


def main():
    props = [json.loads(l) for l in open(os.path.join(VERIF, "properties.jsonl"))]
    extra = {}
    try:
        import manifest_extra
        extra = manifest_extra.CHECKS
        NOT_BUILT.update(manifest_extra.NOT_APPLICABLE)
    except ImportError:
        pass
    table = dict(CHECKS)
    table.update(extra)
    commits = subprocess.run(["git", "-C", "/repo", "log", "--format=%h %s", "--grep", "^verif hooks"],
                             stdout=subprocess.PIPE, text=True).stdout.strip().splitlines()
    m = {
        "version": 1,
        "setup_cmd": "./setup.sh",
        "hooks": {
            "guard": "sas_lexer_verif",
            "enable": "rustc --cfg sas_lexer_verif (set in /verif/harness/.cargo/config.toml build.rustflags; "
                      "the harness crate depends on /repo/crates/sas-lexer by path)",
            "baseline_off_cmd": "cd /repo && cargo test --workspace --no-fail-fast --offline",
            "source_commits": [c.split()[0] for c in commits],
            "add_only": True,
        },
        "engines": [
            {"name": "tlc-monitor", "path": "spec/TraceMon.tla",
             "serves_properties": sorted(table),
             "kind_free_text": "TLA+ property predicates (spec/Props.tla and friends) evaluated by TLC on traces "
                               "recorded from the real lexer by the cfg(sas_lexer_verif) hooks"},
            {"name": "tlc-design-mc", "path": "spec/MC_SasLexer.tla",
             "serves_properties": sorted(DESIGN_LEVEL),
             "kind_free_text": "TLC model checking of the operational model spec/SasLexer.tla with lazily chosen input "
                               "(MC_SasLexer; products MC_Twin, MC_SepPair, MC_Compose; MC_Views for the buffer), run inside "
                               "the same ./check commands; the model is bound to the code by ./check CONF (spec/TraceConf.tla)"},
        ],
        "checks": [],
        "not_applicable": [],
        "notes": "All checks: ./check <id> --tier quick|thorough; VERIF_SEED seeds every random choice. "
                 "Exit 2 = tool error (never a verdict).",
    }
    for p in props:
        pid = p["id"]
        if pid in table:
            level, ref, text, tech = table[pid]
            if pid in DESIGN_LEVEL:
                text, tech = text + DESIGN_LEVEL[pid][0], tech + DESIGN_LEVEL[pid][1]
            m["checks"].append({
                "property_id": pid,
                "quick_cmd": "./check %s --tier quick" % pid,
                "thorough_cmd": "./check %s --tier thorough" % pid,
                "evidence_file": "evidence/%s.json" % pid,
                "replay_cmd_template": "./check %s --replay {path}" % pid,
                "engine": "tlc-monitor",
                "level_claimed": {"category": level, "text": text, "design_ref": "DESIGN.md section " + ref},
                "level_note": MON_NOTE if pid != "C20" else MON_NOTE + " C20: the extension links the published sas-lexer 1.0.0-beta.3 "
                              "from the offline cargo registry, not the workspace crate; four defects of that crate (all repaired in the workspace crate) are listed as known findings.",
                "technique": tech,
            })
        else:
            m["not_applicable"].append({
                "property_id": pid,
                "reason": NOT_BUILT.get(pid, "check not built yet (work in progress; DESIGN.md section 13)"),
            })
    with open(os.path.join(VERIF, "MANIFEST.json"), "w") as f:
        json.dump(m, f, indent=1)
    print("MANIFEST.json: %d checks, %d not_applicable" % (len(m["checks"]), len(m["not_applicable"])))


if __name__ == "__main__":
    main()
