"""Shared driver code: building the harness, running lexrun and TLC, verdict handling,
known findings, replay files, evidence files.  Standard library only."""
import hashlib
import json
import os
import re
import shutil
import subprocess
import sys
import time

VERIF = os.path.dirname(os.path.dirname(os.path.abspath(__file__)))
# The registered commands always run against /repo.  VERIF_REPO/VERIF_WORK exist only for lib/seedtest.sh, which
# evaluates the checks on a scratch worktree carrying a seeded change without touching /repo or the evidence.
REPO = os.environ.get("VERIF_REPO", "/repo")
ALT_REPO = REPO != "/repo"
WORK = os.environ.get("VERIF_WORK", os.path.join(VERIF, "work"))
SPEC = os.path.join(VERIF, "spec")
HARNESS = os.path.join(VERIF, "harness")
EVIDENCE = os.path.join(WORK, "evidence") if ALT_REPO else os.path.join(VERIF, "evidence")
REPLAYS = os.path.join(WORK, "replays") if ALT_REPO else os.path.join(VERIF, "replays")
KNOWN = os.path.join(VERIF, "known_findings.json")

TLC_CP = "/opt/veriftools/tla/tla2tools.jar:/opt/veriftools/tla/CommunityModules-deps.jar"


class ToolError(Exception):
    """Anything that is the machinery's fault (exit code 2, never a VIOLATION)."""


def log(msg):
    print(msg, flush=True)


def sh(cmd, **kw):
    return subprocess.run(cmd, **kw)


# ----------------------------------------------------------------------------- builds

VARIANTS = {
    # name: (target dir, profile flag, features, toolchain, guard on)
    "dbg": ("target-dbg", [], ["macro_sep"], None, True),
    "rel": ("target-rel", ["--release"], ["macro_sep"], None, True),
    "nosep": ("target-nosep", [], [], None, True),
    "relnosep": ("target-relnosep", ["--release"], [], None, True),
    "plain": ("target-plain", [], ["macro_sep"], None, False),
    "nightly": ("target-nightly", ["--release"], ["macro_sep"], "nightly", True),
}


def build(variant):
    """Builds lexrun for a variant from /repo's current working tree; returns the binary path."""
    tdir, prof, feats, toolchain, guard = VARIANTS[variant]
    target = os.path.join(WORK, tdir)
    cmd = ["cargo"]
    if toolchain:
        cmd.append("+" + toolchain)
    cmd += ["build", "--offline", "--no-default-features", "--quiet"] + prof
    if ALT_REPO:
        cmd += ["--config", 'paths=["%s/crates/sas-lexer"]' % REPO]
    if feats:
        cmd += ["--features", ",".join(feats)]
    env = dict(os.environ)
    env["CARGO_TARGET_DIR"] = target
    env["CARGO_NET_OFFLINE"] = "true"
    if not guard:
        env["RUSTFLAGS"] = "--check-cfg cfg(sas_lexer_verif)"
    else:
        env.pop("RUSTFLAGS", None)
    t0 = time.time()
    p = sh(cmd, cwd=HARNESS, env=env, stdout=subprocess.PIPE, stderr=subprocess.STDOUT, text=True)
    if p.returncode != 0:
        raise ToolError("cargo build failed for variant %s:\n%s" % (variant, p.stdout[-4000:]))
    sub = "release" if "--release" in prof else "debug"
    binp = os.path.join(target, sub, "lexrun")
    if not os.path.exists(binp):
        raise ToolError("binary missing: " + binp)
    log("[build] %s ok (%.1fs)" % (variant, time.time() - t0))
    return binp


def lexrun(binp, cases_path, out_path, events=False, chars=True, threads=1, all_on_all=False,
           timeout=1800, reuse=False):
    cmd = [binp, "--in", cases_path, "--out", out_path]
    if events:
        cmd.append("--events")
    if chars:
        cmd.append("--chars")
    if threads > 1:
        cmd += ["--threads", str(threads)]
    if all_on_all:
        cmd.append("--all-on-all")
    if reuse:
        cmd.append("--reuse")
    t0 = time.time()
    try:
        p = sh(cmd, stdout=subprocess.PIPE, stderr=subprocess.STDOUT, text=True, timeout=timeout)
    except subprocess.TimeoutExpired:
        # The lexer itself hung (only possible for a build without the budget hook, or inside
        # a scanner loop): the caller decides what that means.
        return {"timeout": True, "wall": time.time() - t0, "rc": None, "out": ""}
    return {"timeout": False, "wall": time.time() - t0, "rc": p.returncode, "out": p.stdout}


def write_cases(path, cases):
    """cases: iterable of dicts with at least id and src."""
    n = 0
    with open(path, "w", encoding="utf-8") as f:
        for c in cases:
            line = json.dumps(c, ensure_ascii=False)
            try:
                line.encode("utf-8")
            except UnicodeEncodeError:          # lone surrogates (C20 only): keep them as JSON escapes
                line = json.dumps(c, ensure_ascii=True)
            f.write(line)
            f.write("\n")
            n += 1
    return n


def read_ndjson(path):
    with open(path, encoding="utf-8") as f:
        for line in f:
            if line.strip():
                yield json.loads(line)


# ----------------------------------------------------------------------------- TLC

def tlc(module, cfg_text, workdir, name, env_extra=None, workers=4, timeout=900, extra_args=None,
        heap="4g", deque=False, stack="512m"):
    """Runs TLC on spec/<module>.tla with a generated cfg.  Returns (rc, stdout)."""
    os.makedirs(workdir, exist_ok=True)
    cfg = os.path.join(workdir, name + ".cfg")
    with open(cfg, "w") as f:
        f.write(cfg_text)
    meta = os.path.join(workdir, "meta-" + name)
    shutil.rmtree(meta, ignore_errors=True)
    opts = ["-XX:+UseParallelGC", "-Xmx" + heap, "-Xss" + stack]
    if deque:
        opts.append("-Dtlc2.tool.queue.IStateQueue=StateDeque")
    cmd = ["timeout", str(timeout), "java"] + opts + ["-cp", TLC_CP, "tlc2.TLC",
           "-workers", str(workers), "-metadir", meta, "-cleanup", "-noGenerateSpecTE",
           "-config", cfg] + (extra_args or []) + [os.path.join(SPEC, module + ".tla")]
    env = dict(os.environ)
    env.pop("JAVA_TOOL_OPTIONS", None)
    if env_extra:
        env.update(env_extra)
    t0 = time.time()
    p = sh(cmd, cwd=SPEC, env=env, stdout=subprocess.PIPE, stderr=subprocess.STDOUT, text=True)
    shutil.rmtree(meta, ignore_errors=True)
    return p.returncode, p.stdout, time.time() - t0


_TUPLE_RE = re.compile(r'^<<\s*"(VERDICT|CERTFAIL|SKIPPED|REPLAY|DRIFT|INFO)"')


def parse_tlc_stats(out):
    st = {"states": 0, "distinct": 0}
    m = re.search(r"(\d+) states generated, (\d+) distinct states found", out)
    if m:
        st["states"] = int(m.group(1))
        st["distinct"] = int(m.group(2))
    return st


def tlc_ok(out):
    return "Model checking completed. No error has been found." in out or \
        "Finished computing" in out and "Error:" not in out


def parse_verdicts(out):
    """Returns list of (kind, fields) for the tuples TLC printed.  TLC may wrap long
    tuples over several lines; they are re-joined first."""
    res = []
    buf = None
    for line in out.splitlines():
        if buf is None:
            if _TUPLE_RE.match(line):
                buf = line
            else:
                continue
        else:
            buf += " " + line.strip()
        if buf.rstrip().endswith(">>") and buf.count("<<") == buf.count(">>"):
            res.append(buf)
            buf = None
    parsed = []
    for t in res:
        parsed.append(parse_tla_tuple(t))
    return parsed


def parse_tla_tuple(s):
    """Tiny parser for the TLA+ values TLC prints: tuples, strings, ints, sets, booleans, records."""
    pos = [0]

    def ws():
        while pos[0] < len(s) and s[pos[0]] in " \n\t":
            pos[0] += 1

    def val():
        ws()
        if s.startswith("<<", pos[0]):
            pos[0] += 2
            items = []
            ws()
            if s.startswith(">>", pos[0]):
                pos[0] += 2
                return items
            while True:
                items.append(val())
                ws()
                if s.startswith(",", pos[0]):
                    pos[0] += 1
                    continue
                if s.startswith(">>", pos[0]):
                    pos[0] += 2
                    return items
                raise ValueError("bad tuple at %d in %r" % (pos[0], s))
        if s.startswith("{", pos[0]):
            pos[0] += 1
            items = []
            ws()
            if s.startswith("}", pos[0]):
                pos[0] += 1
                return {"set": items}
            while True:
                items.append(val())
                ws()
                if s.startswith(",", pos[0]):
                    pos[0] += 1
                    continue
                if s.startswith("}", pos[0]):
                    pos[0] += 1
                    return {"set": items}
                raise ValueError("bad set at %d in %r" % (pos[0], s))
        if s.startswith("[", pos[0]):
            pos[0] += 1
            rec = {}
            while True:
                ws()
                m = re.match(r"(\w+) \|-> ", s[pos[0]:])
                if not m:
                    raise ValueError("bad record at %d in %r" % (pos[0], s))
                pos[0] += m.end()
                rec[m.group(1)] = val()
                ws()
                if s.startswith(",", pos[0]):
                    pos[0] += 1
                    continue
                if s.startswith("]", pos[0]):
                    pos[0] += 1
                    return rec
                raise ValueError("bad record at %d in %r" % (pos[0], s))
        if s.startswith('"', pos[0]):
            i = pos[0] + 1
            out = []
            while i < len(s):
                ch = s[i]
                if ch == "\\" and i + 1 < len(s):
                    nxt = s[i + 1]
                    out.append({"n": "\n", "t": "\t", "r": "\r", "f": "\f"}.get(nxt, nxt))
                    i += 2
                    continue
                if ch == '"':
                    break
                out.append(ch)
                i += 1
            pos[0] = i + 1
            return "".join(out)
        m = re.match(r"-?\d+", s[pos[0]:])
        if m:
            pos[0] += m.end()
            return int(m.group(0))
        m = re.match(r"TRUE|FALSE", s[pos[0]:])
        if m:
            pos[0] += m.end()
            return m.group(0) == "TRUE"
        raise ValueError("bad value at %d in %r" % (pos[0], s))

    return val()


def monitor(prop, trace_paths, workdir, workers_each=2, parallel=8, timeout=900, module="TraceMon",
            extra_consts="", macro_sep=True):
    """Runs the TLA+ monitor for `prop` on each trace file (several TLC processes in parallel).
    Returns dict(verdicts=[(id, clause, count, witness)], records=int, states, transitions, wall)."""
    import concurrent.futures as cf

    def one(i_path):
        i, path = i_path
        cfg = ("SPECIFICATION Spec\nINVARIANT Monitor\nCONSTANTS\n  W = %d\n  PROP = \"%s\"\n  MacroSepOn = %s\n%s"
               "CHECK_DEADLOCK FALSE\n" % (workers_each, prop, "TRUE" if macro_sep else "FALSE", extra_consts))
        rc, out, wall = tlc(module, cfg, workdir, "mon-%s-%d" % (prop, i),
                            env_extra={"TRACE": path}, workers=workers_each, timeout=timeout)
        return path, rc, out, wall

    t0 = time.time()
    results = []
    with cf.ThreadPoolExecutor(max_workers=parallel) as ex:
        for r in ex.map(one, list(enumerate(trace_paths))):
            results.append(r)
    verdicts, skipped, certfail = [], [], []
    states = trans = recs = 0
    for path, rc, out, wall in results:
        nrec = sum(1 for _ in open(path, encoding="utf-8"))
        if "Model checking completed. No error has been found." not in out:
            import re as _re
            m_ = _re.search(r"Error: .*(?:\n.*){0,6}", out)
            raise ToolError("TLC monitor run failed on %s (rc=%s):\n%s" % (path, rc, m_.group(0)[:2000] if m_ else out[-1500:]))
        st = parse_tlc_stats(out)
        if st["distinct"] != nrec:
            raise ToolError("monitor consumed %d of %d records of %s" % (st["distinct"], nrec, path))
        states += st["distinct"]
        trans += st["states"]
        recs += nrec
        for t in parse_verdicts(out):
            if t[0] == "VERDICT":
                verdicts.append((t[1], t[2], t[3], t[4]))
            elif t[0] == "SKIPPED":
                skipped.append(t[1])
            elif t[0] == "CERTFAIL":
                certfail.append(t[1])
    if certfail:
        raise ToolError("position-table certificate rejected for cases: %s" % certfail[:5])
    return {"verdicts": verdicts, "skipped": skipped, "records": recs, "states": states,
            "transitions": trans, "wall": time.time() - t0}


# ----------------------------------------------------------------------------- findings

def load_known():
    if not os.path.exists(KNOWN):
        return {"findings": [], "fixed": []}
    with open(KNOWN) as f:
        return json.load(f)


def finding_matches(f, prop, clause, case):
    """A known finding is identified by property, clause and a *pattern* of the source text
    (a regular expression that must match the whole source), so that a different violation
    of the same property is still reported."""
    if f["property"] != prop:
        return False
    if f.get("clause") and f["clause"] != clause:
        return False
    if f.get("clauses") and clause not in f["clauses"]:
        return False
    src = case.get("src", "")
    if "token_regex" in f:
        wt = case.get("witness_text")
        return wt is not None and re.fullmatch(f["token_regex"], wt, re.S) is not None
    if "source" in f and f["source"] == src:
        return True
    if "source_regex" in f and re.fullmatch(f["source_regex"], src, re.S):
        return True
    return False


def write_replay(prop, clause, case, detail, variant):
    os.makedirs(REPLAYS, exist_ok=True)
    h = hashlib.sha1((clause + "\0" + case.get("src", "")).encode("utf-8")).hexdigest()[:12]
    path = os.path.join(REPLAYS, "%s-%s.json" % (prop, h))
    with open(path, "w", encoding="utf-8") as f:
        json.dump({"property": prop, "clause": clause, "variant": variant, "detail": detail,
                   "case": case}, f, ensure_ascii=False, indent=1)
    return path


# ----------------------------------------------------------------------------- evidence

def write_evidence(prop, tier, seed, level, coverage, wall, violations, assumptions=None):
    os.makedirs(EVIDENCE, exist_ok=True)
    ev = {
        "property_id": prop,
        "tier": tier,
        "seed": seed,
        "level": level,
        "coverage": coverage,
        "assumptions": assumptions or [],
        "wall_s": round(wall, 2),
        "violations": violations,
    }
    path = os.path.join(EVIDENCE, prop + ".json")
    tmp = path + ".tmp"
    with open(tmp, "w", encoding="utf-8") as f:
        json.dump(ev, f, ensure_ascii=False, indent=1)
    os.replace(tmp, path)
    return path
