------------------------------- MODULE Chars -------------------------------
(***************************************************************************)
(* Character model.  A source text is a sequence of one-character strings. *)
(* ASCII classes are defined here by set membership; for non-ASCII         *)
(* characters the class comes with the text (`cc`, from an independent     *)
(* classification: 1 = White_Space, 2 = XID_Start, 3 = XID_Continue only,  *)
(* 4 = other, 5 = U+00AC NOT SIGN, 6 = U+00A6 BROKEN BAR, 7 = U+2218 RING  *)
(* OPERATOR, 8 = U+FEFF; the two ASCII white-space controls that a TLA+    *)
(* string cannot spell, U+000B and U+000C, also arrive with class 1).      *)
(***************************************************************************)
EXTENDS Integers, Sequences, FiniteSets

LF == "\n"
TAB == "\t"
CR == "\r"

Digits == {"0","1","2","3","4","5","6","7","8","9"}
LowerL == {"a","b","c","d","e","f","g","h","i","j","k","l","m",
           "n","o","p","q","r","s","t","u","v","w","x","y","z"}
UpperL == {"A","B","C","D","E","F","G","H","I","J","K","L","M",
           "N","O","P","Q","R","S","T","U","V","W","X","Y","Z"}
Letters == LowerL \cup UpperL
HexDigits == Digits \cup {"a","b","c","d","e","f","A","B","C","D","E","F"}

\* ASCII white space (White_Space property): U+0009..U+000D and U+0020;
\* U+000B and U+000C arrive with class 1 (see above)
AsciiWs == {" ", "\t", "\n", "\r"}

UpperOf ==
  [c \in LowerL |->
     CASE c = "a" -> "A" [] c = "b" -> "B" [] c = "c" -> "C" [] c = "d" -> "D"
       [] c = "e" -> "E" [] c = "f" -> "F" [] c = "g" -> "G" [] c = "h" -> "H"
       [] c = "i" -> "I" [] c = "j" -> "J" [] c = "k" -> "K" [] c = "l" -> "L"
       [] c = "m" -> "M" [] c = "n" -> "N" [] c = "o" -> "O" [] c = "p" -> "P"
       [] c = "q" -> "Q" [] c = "r" -> "R" [] c = "s" -> "S" [] c = "t" -> "T"
       [] c = "u" -> "U" [] c = "v" -> "V" [] c = "w" -> "W" [] c = "x" -> "X"
       [] c = "y" -> "Y" [] c = "z" -> "Z"]

Up(c) == IF c \in LowerL THEN UpperOf[c] ELSE c

\* A classified character is a pair (c, k): the character and its class code
\* (0 for ASCII).  All predicates take both.
IsWs(c, k)        == IF k = 0 THEN c \in AsciiWs ELSE k = 1
IsNotSign(c, k)   == (k = 0 /\ c \in {"^", "~"}) \/ k = 5    \* the macro-eval NOT characters
IsNotSignOC(c, k) == IsNotSign(c, k) \/ k = 7               \* open code also takes the ring operator
IsBPipe(c, k)     == k = 6
IsDigit(c)        == c \in Digits
IsHex(c)          == c \in HexDigits
IsAsciiNameStart(c) == c \in Letters \/ c = "_"
IsAsciiNameCont(c)  == c \in Letters \/ c \in Digits \/ c = "_"
\* is_valid_unicode_sas_name_start: XID_Start or '_'
IsNameStart(c, k) == IF k = 0 THEN IsAsciiNameStart(c) ELSE k = 2
\* is_xid_continue
IsXidCont(c, k)   == IF k = 0 THEN IsAsciiNameCont(c) ELSE k \in {2, 3}
\* the continuation test of lex_identifier / macro identifiers:
\* ASCII name continue, or non-ASCII XID_Continue
IsNameCont(c, k)  == IsXidCont(c, k)

\* Concatenate a sequence of one-character strings into one string, upper-casing
RECURSIVE UpStr(_)
UpStr(s) == IF s = <<>> THEN "" ELSE Up(Head(s)) \o UpStr(Tail(s))
\* the characters of s as one string, unchanged (used by lib/model_mutants.py)
RECURSIVE CatStr(_)
CatStr(s) == IF s = <<>> THEN "" ELSE Head(s) \o CatStr(Tail(s))

RECURSIVE Str(_)
Str(s) == IF s = <<>> THEN "" ELSE Head(s) \o Str(Tail(s))

AllIn(s, S) == \A i \in 1..Len(s) : s[i] \in S

\* Split a TLA+ string into a sequence of one-character strings (ASCII only)
Split(str) == [i \in 1..Len(str) |-> SubSeq(str, i, i)]
=============================================================================
