---------------------------- MODULE MC_SasLexer ----------------------------
(***************************************************************************)
(* Model checking the operational specification with *lazily chosen*       *)
(* input (DESIGN.md 3.4).                                                  *)
(*                                                                         *)
(* The text is not fixed: it grows by one fragment of the constant set     *)
(* Frags exactly when the pending step has looked beyond what is available *)
(* (or the input is closed).  A step of the lexer is taken only when its   *)
(* result cannot depend on text that has not been chosen yet.              *)
(*                                                                         *)
(* Regime R2 (configuration-exhaustive): under the VIEW below two states   *)
(* with the same configuration, the same unread window and the same        *)
(* look-behind are one state, so TLC enumerates the reachable              *)
(* configurations for inputs of any length (within the bounds of the       *)
(* CONSTRAINT).  Every distinct state prints one REPLAY line with the      *)
(* input that reaches it first (BFS: a shortest one): the transition cover *)
(* that is replayed on the real lexer.                                     *)
(* Regime R1 (bounded-exhaustive with history): the same spec without the  *)
(* VIEW and with a bound on the number of fragments.                       *)
(***************************************************************************)
EXTENDS TraceConf, Json

CONSTANTS FragSet,      \* name of the fragment set to use
          MaxFrags,     \* bound on the number of fragments chosen (R1); large for R2
          MaxStack, MaxWindow, MaxSpec, MaxToksSinceCk,
          MaxCalls,     \* bound on the number of open calls (ExpectSymbol RPAREN modes) and of open string expressions
          Emit1         \* 0: nothing printed; n > 0: REPLAY lines for states with exactly n unread fragments

VARIABLES T,      \* the text chosen so far: [cs, cc]
          fends,  \* end positions of the fragments chosen so far
          nfr,    \* number of fragments chosen
          eof,    \* the input is closed
          S,      \* the lexer state (SasLexer!InitState ...)
          phase   \* "lex", "fin", "done"

vars == <<T, fends, nfr, eof, S, phase>>

\* ---- fragment sets: <<text, class>>; class # 0 makes every character of the fragment a
\* non-ASCII character of that class (the driver substitutes a real character)
F(s) == <<s, 0>>
FragsOpen ==
  {F(" "), F("\n"), F(";"), F("a"), F("1"), F("."), F("e"), F("x"), F("'"), F("\""), F("*"), F("/"), F("="),
   F("$"), F("&"), F("%"), F("("), F(")"), F(","), F("datalines"), F("cards4"), F(";;;;"), F("data"), <<"U", 2>>,
   <<"W", 1>>, <<"O", 4>>, <<"N", 5>>}
FragsMacroStat ==
  {F(" "), F(";"), F("a"), F("="), F("1"), F("%let"), F("%put"), F("%if"), F("%then"), F("%else"), F("%do"), F("%end"),
   F("%to"), F("%by"), F("%while("), F("%macro"), F("%mend"), F("%local"), F("%goto"), F("%lbl"), F(":"), F("/"),
   F("%return"), F("%copy"), F("%m"), F("("), F(")"), F("&v"), F("*"), F("\""), F("'"), F(","), F("%abort")}
FragsCall ==
  {F(" "), F(";"), F("a"), F("="), F(","), F("("), F(")"), F("%m"), F("%m("), F("&v"), F("&v."), F("%str("), F("%nrstr("),
   F("%let"), F("%*"), F("/*"), F("*/"), F("'"), F("\""), F("%"), F("&"), F("\n"), F("%scan("), F("%upcase("), F("%sysfunc("),
   F("%cmpres("), F("%verify("), F("%macro"), F("/")}
FragsEval ==
  {F(" "), F(";"), F("a"), F("1"), F("="), F("+"), F("*"), F("("), F(")"), F(","), F("eq"), F("and"), F("%eval("),
   F("%sysevalf("), F("%if"), F("%then"), F("%to"), F("%do"), F("&v"), F("%m"), F("'"), F("\""), F("/"), F("%"), F("&"),
   F("."), F("x"), F("%scan("), F("%substr("), F("%sysfunc("), F("%str("), F("<"), F("#"), F("~")}
FragsStr ==
  {F(" "), F(";"), F("a"), F("\""), F("'"), F("\"\""), F("''"), F("&v"), F("&"), F("%"), F("%m"), F("%m("), F(")"), F("("),
   F("%let"), F("="), F("x"), F("d"), F("t"), F("%str("), F("%nrstr("), F("%'"), F("%("), F("%)"), F("%%"), F(","), F("\n"),
   F("%eval("), F("1")}
Frags ==
  CASE FragSet = "open" -> FragsOpen [] FragSet = "macrostat" -> FragsMacroStat [] FragSet = "call" -> FragsCall
    [] FragSet = "eval" -> FragsEval [] FragSet = "str" -> FragsStr
    [] OTHER -> FragsOpen \cup FragsMacroStat \cup FragsCall \cup FragsEval \cup FragsStr

FragChars(f) == Split(f[1])
FragClasses(f) == [i \in 1..Len(f[1]) |-> f[2]]
\* UTF-8 width of the character the driver substitutes for a class
ClassWidth(k) == CASE k = 0 -> 1 [] k = 4 -> 4 [] k = 7 -> 3 [] OTHER -> 2
FragWidths(f) == [i \in 1..Len(f[1]) |-> ClassWidth(f[2])]

\* ---- the pending step and whether its result is final
Margin == 2
Pending(st, txt, closed) ==
  IF ~Eof(txt, st.pos) THEN Step(st, txt)
  ELSE IF ~closed THEN [st EXCEPT !.la = TLen(txt) + 1]           \* nothing to look at: need more
  ELSE IF st.modes # <<>> THEN FinalizeStep(st, txt) ELSE EofStep(st)
StepFinal(st, st1, txt, closed) ==
  closed \/ Max2(Max2(st1.la, st1.pos + Margin), st.pos + Margin) <= TLen(txt)

Init ==
  /\ T = [cs |-> <<>>, cc |-> <<>>, cw |-> <<>>] /\ fends = <<>> /\ nfr = 0 /\ eof = FALSE
  /\ S = InitState(0) /\ phase = "lex"

Extend ==
  /\ ~eof /\ phase = "lex"
  /\ ~StepFinal(S, Pending(S, T, FALSE), T, FALSE)
  /\ \/ /\ nfr < MaxFrags
        /\ \E f \in Frags : /\ T' = [cs |-> T.cs \o FragChars(f), cc |-> T.cc \o FragClasses(f), cw |-> T.cw \o FragWidths(f)]
                              /\ fends' = Append(fends, TLen(T) + Len(f[1]))
        /\ nfr' = nfr + 1 /\ eof' = FALSE
     \/ /\ eof' = TRUE /\ UNCHANGED <<T, fends, nfr>>
  /\ UNCHANGED <<S, phase>>

LexStep ==
  /\ phase = "lex" /\ ~Eof(T, S.pos)
  /\ LET S1 == Pending(S, T, eof) IN
       /\ StepFinal(S, S1, T, eof)
       /\ S' = [S1 EXCEPT !.la = 0]
  /\ UNCHANGED <<T, fends, nfr, eof, phase>>

StartFinalize ==
  /\ phase = "lex" /\ eof /\ Eof(T, S.pos)
  /\ phase' = "fin" /\ UNCHANGED <<T, fends, nfr, eof, S>>

FinStep ==
  /\ phase = "fin"
  /\ IF S.modes # <<>> THEN S' = FinalizeStep(S, T) /\ phase' = "fin"
     ELSE S' = EofStep(S) /\ phase' = "done"
  /\ UNCHANGED <<T, fends, nfr, eof>>

Next == Extend \/ LexStep \/ StartFinalize \/ FinStep
Spec == Init /\ [][Next]_vars

\* ---- view (R2): configuration, unread window, look-behind
Base == IF S.ck.set /\ S.ck.pos < S.pos THEN S.ck.pos ELSE S.pos
\* The look-behind the code consults, reduced to the classes it distinguishes (DESIGN.md 8, C15):
\* the type of the last token, of the last and of the second-to-last default-channel token.
LastTokClass(ty) ==
  CASE ty \in {"StringExprStart", "SEMI", "PredictedCommentStat", "KwmUntil", "KwmWhile", "None"} -> ty
    [] ty \in KwmStatTypes -> "stat"
    [] ty \in {"MacroVarTerm", "MacroIdentifier", "MacroString", "RPAREN"} -> "namepart"
    [] OTHER -> "other"
LastDefClass(ty) ==
  CASE ty \in {"None", "SEMI", "MacroLabel", "KwmThen", "KwmElse", "KwmDo", "MacroIdentifier"} -> ty
    [] IsLogicalOp(ty) -> "logical"
    [] ty \in EvalStartTypes -> "evalstart"
    [] OTHER -> "other"
PrevDefClass(ty) == IF ty \in {"None", "SEMI", "MacroLabel", "KwmThen", "KwmElse"} THEN ty ELSE "other"
DefTypes(toks) ==   \* types of the last two default-channel tokens
  LET i1 == LastDefIdx(toks, Len(toks))
      i2 == IF i1 > 0 THEN LastDefIdx(toks, i1 - 1) ELSE 0
  IN <<IF i1 > 0 THEN toks[i1].ty ELSE "None", IF i2 > 0 THEN toks[i2].ty ELSE "None">>
LookBehind(toks) ==
  LET d == DefTypes(toks) IN
  <<LastTokClass(IF toks = <<>> THEN "None" ELSE toks[Len(toks)].ty), LastDefClass(d[1]), PrevDefClass(d[2])>>
\* fragment boundaries inside the unread window, relative to its start
WinFrags == [i \in 1..Cardinality({j \in 1..Len(fends) : fends[j] > Base}) |->
               fends[Len(fends) - Cardinality({j \in 1..Len(fends) : fends[j] > Base}) + i] - Base]
View ==
  <<S.modes, S.pend, S.nest, S.fault, phase, eof,
    S.ck.set, IF S.ck.set THEN <<S.pos - S.ck.pos, S.ck.ml, Len(S.toks) - S.ck.nt,
                                 LookBehind(SubSeq(S.toks, 1, S.ck.nt))>> ELSE <<>>,
    LookBehind(S.toks),
    SubSeq(T.cs, Base + 1, TLen(T)), SubSeq(T.cc, Base + 1, TLen(T)), WinFrags>>

\* Coarse view for generating the transition cover: configuration, look-behind classes and the
\* first fragment of the unread window.  TLC then keeps one representative per (configuration,
\* next fragment); exploration under it is not exhaustive, it is an input generator.
CoverView ==
  <<S.modes, S.pend, S.nest, S.fault, phase, eof, S.ck.set,
    IF S.ck.set THEN <<S.ck.ml, LookBehind(SubSeq(S.toks, 1, S.ck.nt))>> ELSE <<>>,
    LookBehind(S.toks),
    Len(WinFrags), IF WinFrags = <<>> THEN <<>> ELSE SubSeq(T.cs, Base + 1, Base + WinFrags[1])>>

CountModes(P(_)) == Cardinality({i \in 1..Len(S.modes) : P(S.modes[i])})
IsOpenCall(m) == m.k = "ExpectSymbol" /\ m.a = "RPAREN"
IsStrExpr(m) == m.k = "StringExpr"
Bounds ==
  /\ Len(S.modes) <= MaxStack
  /\ CountModes(IsOpenCall) <= MaxCalls /\ CountModes(IsStrExpr) <= MaxCalls
  /\ Len(WinFrags) <= MaxWindow          \* fragments in the unread window
  /\ (S.ck.set => (S.pos - S.ck.pos <= MaxSpec /\ Len(S.toks) - S.ck.nt <= MaxToksSinceCk))
  /\ S.nest <= 2 /\ Len(S.pend) <= 3
  /\ \A i \in 1..Len(S.modes) : S.modes[i].p <= 2

\* ---- invariants of the design (checked on every reachable state)
NoFault == S.fault = ""                          \* C01: no internal fault is reachable
NoInternalError == \A i \in 1..Len(S.errs) : ~(Len(S.errs[i].k) > 8 /\ SubSeq(S.errs[i].k, 1, 8) = "Internal")
CkptDiscipline ==                                \* a live checkpoint belongs to a speculation in progress
  S.ck.set =>
    \/ \E i \in 1..Len(S.modes) : S.modes[i].k \in {"MaybeMacroCallArgsOrLabel", "MaybeMacroCallArgAssign"}
    \/ Top(S).k = "MacroCallArgOrValue"
    \/ phase # "lex"
CkptBelowStack == (phase = "lex" /\ S.ck.set) => S.ck.ml <= Len(S.modes) + 1
TokensOrdered ==                                 \* C02: starts never decrease, nothing lies beyond the cursor
  /\ \A i \in 2..Len(S.toks) : S.toks[i].c >= S.toks[i-1].c
  /\ (S.toks # <<>> => S.toks[Len(S.toks)].c <= S.pos)
LinesMatch ==                                    \* C04: one line start per consumed LF
  Len(S.lines) = 1 + Cardinality({i \in 1..S.pos : T.cs[i] = LF})
PendNonEmpty == Len(S.pend) >= 1
DoneShape ==                                     \* C02/C10 at the end: EOF last, stack unwound
  phase = "done" => /\ S.modes = <<>> /\ S.toks # <<>> /\ S.toks[Len(S.toks)].ty = "EOF"
                    /\ S.toks[Len(S.toks)].c = TLen(T)
                    /\ \A i \in 1..Len(S.toks) - 1 : S.toks[i].ty # "EOF"
\* C07 (design level): the string payload ranges of the tokens emitted so far are ordered, contiguous
\* and cover the literal buffer exactly - at every step boundary, also right after a rollback
PayToks == SelectSeq(S.toks, LAMBDA t : t.pk = "s")
LitPartition ==
  LET P == PayToks IN
  /\ (P = <<>> => S.nlit = 0)
  /\ (P # <<>> => (P[1].ps = 0 /\ P[Len(P)].pe = S.nlit))
  /\ \A i \in 1..Len(P) : P[i].ps <= P[i].pe /\ (i > 1 => P[i].ps = P[i-1].pe)
\* C10 (design level) on the tokens of the representative behaviour, when lexing is done:
\* string expressions are closed, a datalines start has its data and terminator, a label its colon
TokEnd(i) == IF i < Len(S.toks) THEN S.toks[i+1].c ELSE S.toks[i].c
DoneBalanced ==
  phase = "done" =>
    LET ts == S.toks
        starts == Cardinality({i \in 1..Len(ts) : ts[i].ty = "StringExprStart"})
        ends == Cardinality({i \in 1..Len(ts) : ts[i].ty \in StrExprEndTypes})
    IN /\ starts = ends
       /\ \A i \in 1..Len(ts) :
             /\ (ts[i].ty = "DatalinesStart" =>
                   (i + 2 <= Len(ts) /\ ts[i+1].ty = "DatalinesData" /\ ts[i+2].ty = "SEMI"))
             /\ (ts[i].ty = "MacroLabel" =>
                   \E j \in i+1..Len(ts) : /\ ts[j].ty = "COLON" /\ ts[j].ch = "HIDDEN"
                                            /\ \A k \in i+1..j-1 : ts[k].ty \in {"WS", "CStyleComment"})
\* C09 (design level): when lexing is done every 'missing expected X' error has a zero-width X token
\* at its position
MissTok(k) ==
  CASE k = "MissingExpectedRParen" -> "RPAREN" [] k = "MissingExpectedAssign" -> "ASSIGN"
    [] k = "MissingExpectedLParen" -> "LPAREN" [] k = "MissingExpectedComma" -> "COMMA"
    [] k = "MissingExpectedFSlash" -> "FSLASH" [] k = "MissingExpectedSemiOrEOF" -> "SEMI" [] OTHER -> ""
DoneErrPairs ==
  phase = "done" =>
    \A e \in 1..Len(S.errs) :
       MissTok(S.errs[e].k) # "" =>
         \E i \in 1..Len(S.toks) : /\ S.toks[i].ty = MissTok(S.errs[e].k)
                                    /\ S.toks[i].c = S.errs[e].c /\ TokEnd(i) = S.toks[i].c
\* ... and every zero-width symbol token (other than the end-of-input semicolon) has its error
MissErrOf(ty) ==
  CASE ty = "RPAREN" -> "MissingExpectedRParen" [] ty = "ASSIGN" -> "MissingExpectedAssign"
    [] ty = "LPAREN" -> "MissingExpectedLParen" [] ty = "COMMA" -> "MissingExpectedComma"
    [] ty = "FSLASH" -> "MissingExpectedFSlash" [] ty = "SEMI" -> "MissingExpectedSemiOrEOF" [] OTHER -> ""
DoneTokHasErr ==
  phase = "done" =>
    \A i \in 1..Len(S.toks) :
       (MissErrOf(S.toks[i].ty) # "" /\ TokEnd(i) = S.toks[i].c /\ ~(S.toks[i].ty = "SEMI" /\ S.toks[i].c = TLen(T))) =>
         \E e \in 1..Len(S.errs) : S.errs[e].k = MissErrOf(S.toks[i].ty) /\ S.errs[e].c = S.toks[i].c
\* C02/C06 (design level): only the virtual token types may be empty
MayBeEmpty == {"EOF", "SEMI", "RPAREN", "LPAREN", "ASSIGN", "COMMA", "FSLASH", "MacroStringEmpty", "MacroSep",
               "DatalinesData", "StringExprEnd"}
DoneWidths ==
  phase = "done" => \A i \in 1..Len(S.toks) : TokEnd(i) > S.toks[i].c \/ S.toks[i].ty \in MayBeEmpty
\* The hypotheses of spec/BufferProof.tla (BufOK2), on the model's buffer, in every reachable state: line starts are
\* strictly increasing, every token carries the index of the line its start lies on, token starts never decrease.
\* With the two theorems proved there by tlapm for *every* such buffer this gives C04 (start line) and C05
\* (bulk view = accessors = text) for the model's output at the design level.
BufferOK ==
  /\ \A a, b \in 1..Len(S.lines) : a < b => S.lines[a] < S.lines[b]
  /\ \A j \in 1..Len(S.toks) :
        LET l == S.toks[j].l + 1  c == S.toks[j].c IN
        /\ l \in 1..Len(S.lines) /\ S.lines[l] <= c /\ (l = Len(S.lines) \/ S.lines[l + 1] > c)
  /\ \A j \in 1..(Len(S.toks) - 1) : S.toks[j].c <= S.toks[j+1].c
\* C11 (design level): on macro-free text the operational model and the declarative reference lexer of
\* OpenCode.tla agree on tokens (type, channel, extent) and errors (kind, position), when lexing is done.
\* (The unterminated-datalines tail is left open by the reference: data + terminator must tile it.)
OpenCodeEq ==
  (phase = "done" /\ MacroFree(T.cs, T.cc)) =>
    LET R == RefLex(T.cs, T.cc)
        ts == S.toks
        m == StrictLen(R)
        endOf(i) == IF i < Len(ts) THEN ts[i+1].c ELSE ts[i].c
    IN /\ IF HasTail(R) THEN Len(ts) = m + 3 ELSE Len(ts) = Len(R.toks)
       /\ \A i \in 1..m : /\ ts[i].ty = R.toks[i].ty /\ ts[i].ch = R.toks[i].ch
                           /\ ts[i].c = R.toks[i].s /\ endOf(i) = R.toks[i].e
       /\ (HasTail(R) => (/\ ts[m+1].ty = "DatalinesData" /\ ts[m+1].c = R.toks[m+1].s
                           /\ ts[m+2].ty = "SEMI" /\ ts[m+3].ty = "EOF"
                           /\ \A q \in ts[m+2].c + 1..ts[m+3].c : T.cs[q] = ";"))
       /\ Len(S.errs) = Len(R.errs)
       /\ \A i \in 1..Len(R.errs) : S.errs[i].k = R.errs[i].k /\ (R.errs[i].at < 0 \/ S.errs[i].c = R.errs[i].at)
\* progress (C01): a completed main-loop step never leaves cursor and stack unchanged
Progress == [][(phase = "lex" /\ phase' = "lex" /\ S' # S) => ~(S'.pos = S.pos /\ S'.modes = S.modes)]_vars

\* ---- transition cover: one line per distinct state (BFS: a shortest input reaching it)
Cover ==
  Emit1 = 0 \/ phase # "lex" \/ Eof(T, S.pos) \/ Len(WinFrags) # Emit1 \/ S.ops = <<>> \/
  PrintT(<<"REPLAY", ToJson([cs |-> T.cs, cc |-> T.cc])>>)
\* every (configuration, next fragment) pair: the state right after a step, one fragment unread
CoverAll ==
  Emit1 = 0 \/ phase # "lex" \/ Eof(T, S.pos) \/ Len(WinFrags) # Emit1 \/
  PrintT(<<"REPLAY", ToJson([cs |-> T.cs, cc |-> T.cc])>>)
=============================================================================
