------------------------------ MODULE MC_Twin ------------------------------
(***************************************************************************)
(* C16 and C17 at the design level.  A twin lexer runs in lockstep on a    *)
(* transformed copy of the lazily chosen text:                             *)
(*   Twin = "case": every ASCII letter upper-cased (C16)                   *)
(*   Twin = "bom" : a byte-order mark in front (C17)                       *)
(* The twin's configuration and output must be the original's (for "bom":  *)
(* shifted by one character).                                              *)
(***************************************************************************)
EXTENDS MC_SasLexer

CONSTANT Twin
VARIABLE S2
tvars == <<T, fends, nfr, eof, S, phase, S2>>

T2 == IF Twin = "case" THEN [cs |-> [i \in 1..Len(T.cs) |-> Up(T.cs[i])], cc |-> T.cc, cw |-> T.cw]
      ELSE [cs |-> <<"B">> \o T.cs, cc |-> <<8>> \o T.cc, cw |-> <<3>> \o T.cw]
D == IF Twin = "bom" THEN 1 ELSE 0        \* character shift of the twin

TInit == Init /\ S2 = InitStateF(D, TRUE)
TExtend == Extend /\ UNCHANGED S2
TLexStep == LexStep /\ S2' = [Pending(S2, T2, eof) EXCEPT !.la = 0]
TStartFinalize == StartFinalize /\ UNCHANGED S2
TFinStep == FinStep /\ S2' = IF S2.modes # <<>> THEN FinalizeStep(S2, T2) ELSE EofStep(S2)
TNext == TExtend \/ TLexStep \/ TStartFinalize \/ TFinStep
TSpec == TInit /\ [][TNext]_tvars

TwinSame ==
  /\ S2.pos = S.pos + D
  /\ S2.modes = S.modes /\ S2.pend = S.pend /\ S2.nest = S.nest /\ S2.fault = S.fault
  /\ S2.ck.set = S.ck.set
  /\ (S.ck.set => (S2.ck.pos = S.ck.pos + D /\ S2.ck.ml = S.ck.ml /\ S2.ck.nt = S.ck.nt /\ S2.ck.ns = S.ck.ns))
  /\ Len(S2.toks) = Len(S.toks)
  /\ \A i \in 1..Len(S.toks) : S2.toks[i] = [S.toks[i] EXCEPT !.c = @ + D]
  /\ Len(S2.errs) = Len(S.errs)
  /\ \A i \in 1..Len(S.errs) : S2.errs[i] = [S.errs[i] EXCEPT !.c = @ + D]
  /\ Len(S2.lines) = Len(S.lines)
  /\ \A i \in 1..Len(S.lines) : S2.lines[i] = S.lines[i] + D
  /\ S2.nlit = S.nlit
=============================================================================
