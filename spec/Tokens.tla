------------------------------- MODULE Tokens -------------------------------
(***************************************************************************)
(* Token type names and keyword spellings.                                 *)
(*                                                                         *)
(* The lists of type names follow the TokenType enumeration (they are      *)
(* names, written out; a renamed or added variant shows up as a            *)
(* difference).  Spellings are *not* taken from the crate's generated      *)
(* keyword maps: a keyword type spells the upper-cased rest of its name,   *)
(* with the four exceptions listed in KwSpellings.                         *)
(***************************************************************************)
EXTENDS Chars

\* every token type, in enumeration order
AllTypes == <<
   "EOF", "MacroSep", "CatchAll", "WS", "SEMI", "AMP", "PERCENT", "LPAREN", "RPAREN",
   "LCURLY", "RCURLY", "LBRACK", "RBRACK", "STAR", "EXCL", "EXCL2", "BPIPE", "BPIPE2",
   "PIPE2", "STAR2", "NOT", "FSLASH", "PLUS", "MINUS", "GTLT", "LTGT", "LT", "LE", "NE",
   "GT", "GE", "SoundsLike", "PIPE", "DOT", "COMMA", "COLON", "ASSIGN", "DOLLAR", "AT",
   "HASH", "QUESTION", "KwLT", "KwLE", "KwEQ", "KwIN", "KwNE", "KwGT", "KwGE", "KwAND",
   "KwOR", "KwNOT", "IntegerLiteral", "FloatLiteral", "FloatExponentLiteral",
   "StringLiteral", "BitTestingLiteral", "DateLiteral", "DateTimeLiteral",
   "NameLiteral", "TimeLiteral", "HexStringLiteral", "StringExprStart",
   "StringExprText", "StringExprEnd", "BitTestingLiteralExprEnd", "DateLiteralExprEnd",
   "DateTimeLiteralExprEnd", "NameLiteralExprEnd", "TimeLiteralExprEnd",
   "HexStringLiteralExprEnd", "CStyleComment", "PredictedCommentStat", "DatalinesStart",
   "DatalinesData", "CharFormat", "MacroComment", "MacroVarResolve", "MacroVarTerm",
   "MacroString", "MacroStringEmpty", "MacroLabel", "MacroIdentifier", "KwmCmpres",
   "KwmCompstor", "KwmDatatyp", "KwmEval", "KwmIndex", "KwmLeft", "KwmLength",
   "KwmLowcase", "KwmScan", "KwmSubstr", "KwmSymExist", "KwmSymGlobl", "KwmSymLocal",
   "KwmSysevalf", "KwmSysfunc", "KwmSysget", "KwmSysmacexec", "KwmSysmacexist",
   "KwmSysmexecdepth", "KwmSysmexecname", "KwmSysprod", "KwmTrim", "KwmUnquote",
   "KwmUpcase", "KwmVerify", "KwmKCmpres", "KwmKIndex", "KwmKLeft", "KwmKLength",
   "KwmKLowcase", "KwmKScan", "KwmKSubstr", "KwmKTrim", "KwmKUpcase", "KwmKVerify",
   "KwmValidchs", "KwmQCmpres", "KwmQLeft", "KwmQLowcase", "KwmQScan", "KwmQSubstr",
   "KwmQTrim", "KwmQSysfunc", "KwmQUpcase", "KwmQKCmpres", "KwmQKLeft", "KwmQKLowcase",
   "KwmQKScan", "KwmQKSubstr", "KwmQKTrim", "KwmQKUpcase", "KwmBquote", "KwmNrBquote",
   "KwmNrQuote", "KwmQuote", "KwmSuperq", "KwmStr", "KwmNrStr", "KwmAbort", "KwmCopy",
   "KwmDisplay", "KwmDo", "KwmTo", "KwmBy", "KwmUntil", "KwmWhile", "KwmEnd",
   "KwmGlobal", "KwmGoto", "KwmIf", "KwmThen", "KwmElse", "KwmInput", "KwmLet",
   "KwmLocal", "KwmMacro", "KwmMend", "KwmPut", "KwmReturn", "KwmSymdel", "KwmSyscall",
   "KwmSysexec", "KwmSyslput", "KwmSysmacdelete", "KwmSysmstoreclear", "KwmSysrput",
   "KwmWindow", "KwmInclude", "KwmList", "KwmRun", "Identifier", "KwEQT", "KwGTT",
   "KwLTT", "KwGET", "KwLET", "KwNET", "KwLibname", "KwFilename", "KwClear", "KwList",
   "KwCancel", "KwAllVar", "KwArray", "KwAttrib", "KwCall", "KwData", "KwDefault",
   "KwDescending", "KwFormat", "KwGroupformat", "KwId", "KwIf", "KwInfile",
   "KwInformat", "KwKeep", "KwLabel", "KwLength", "KwMerge", "KwNullDataset",
   "KwOutput", "KwPgm", "KwRename", "KwRun", "KwSet", "KwStop", "KwVar", "KwView",
   "KwWith", "KwDelete", "KwNotsorted", "KwProc", "KwQuit", "KwRanks", "KwAll", "KwAny",
   "KwAs", "KwAsc", "KwBetween", "KwBoth", "KwBtrim", "KwBy", "KwCalculated", "KwCase",
   "KwConnect", "KwConnection", "KwContains", "KwCorr", "KwCreate", "KwCross", "KwDesc",
   "KwDisconnect", "KwDistinct", "KwDo", "KwDrop", "KwElse", "KwEnd", "KwEscape",
   "KwExcept", "KwExecute", "KwExists", "KwFor", "KwFrom", "KwFull", "KwGroup",
   "KwHaving", "KwIndex", "KwInner", "KwInsert", "KwIntersect", "KwInto", "KwIs",
   "KwJoin", "KwKey", "KwLeading", "KwLeft", "KwLike", "KwMissing", "KwNatural",
   "KwNotrim", "KwNull", "KwOn", "KwOrder", "KwOuter", "KwPrimary", "KwRight",
   "KwSelect", "KwSeparated", "KwSubstring", "KwTable", "KwThen", "KwTo", "KwTrailing",
   "KwTrimmed", "KwUnion", "KwUnique", "KwUpdate", "KwUsing", "KwValues", "KwWhen",
   "KwWhere", "KwDeclare", "KwHash", "KwHiter", "KwInput", "KwPut" >>

\* open-code keyword types (mnemonic operators first)
KwTypes == {
   "KwLT", "KwLE", "KwEQ", "KwIN", "KwNE", "KwGT", "KwGE", "KwAND", "KwOR", "KwNOT",
   "KwEQT", "KwGTT", "KwLTT", "KwGET", "KwLET", "KwNET", "KwLibname", "KwFilename",
   "KwClear", "KwList", "KwCancel", "KwAllVar", "KwArray", "KwAttrib", "KwCall",
   "KwData", "KwDefault", "KwDescending", "KwFormat", "KwGroupformat", "KwId", "KwIf",
   "KwInfile", "KwInformat", "KwKeep", "KwLabel", "KwLength", "KwMerge",
   "KwNullDataset", "KwOutput", "KwPgm", "KwRename", "KwRun", "KwSet", "KwStop",
   "KwVar", "KwView", "KwWith", "KwDelete", "KwNotsorted", "KwProc", "KwQuit",
   "KwRanks", "KwAll", "KwAny", "KwAs", "KwAsc", "KwBetween", "KwBoth", "KwBtrim",
   "KwBy", "KwCalculated", "KwCase", "KwConnect", "KwConnection", "KwContains",
   "KwCorr", "KwCreate", "KwCross", "KwDesc", "KwDisconnect", "KwDistinct", "KwDo",
   "KwDrop", "KwElse", "KwEnd", "KwEscape", "KwExcept", "KwExecute", "KwExists",
   "KwFor", "KwFrom", "KwFull", "KwGroup", "KwHaving", "KwIndex", "KwInner", "KwInsert",
   "KwIntersect", "KwInto", "KwIs", "KwJoin", "KwKey", "KwLeading", "KwLeft", "KwLike",
   "KwMissing", "KwNatural", "KwNotrim", "KwNull", "KwOn", "KwOrder", "KwOuter",
   "KwPrimary", "KwRight", "KwSelect", "KwSeparated", "KwSubstring", "KwTable",
   "KwThen", "KwTo", "KwTrailing", "KwTrimmed", "KwUnion", "KwUnique", "KwUpdate",
   "KwUsing", "KwValues", "KwWhen", "KwWhere", "KwDeclare", "KwHash", "KwHiter",
   "KwInput", "KwPut" }

\* macro keyword types: built-in functions, then statements
KwmTypes == {
   "KwmCmpres", "KwmCompstor", "KwmDatatyp", "KwmEval", "KwmIndex", "KwmLeft",
   "KwmLength", "KwmLowcase", "KwmScan", "KwmSubstr", "KwmSymExist", "KwmSymGlobl",
   "KwmSymLocal", "KwmSysevalf", "KwmSysfunc", "KwmSysget", "KwmSysmacexec",
   "KwmSysmacexist", "KwmSysmexecdepth", "KwmSysmexecname", "KwmSysprod", "KwmTrim",
   "KwmUnquote", "KwmUpcase", "KwmVerify", "KwmKCmpres", "KwmKIndex", "KwmKLeft",
   "KwmKLength", "KwmKLowcase", "KwmKScan", "KwmKSubstr", "KwmKTrim", "KwmKUpcase",
   "KwmKVerify", "KwmValidchs", "KwmQCmpres", "KwmQLeft", "KwmQLowcase", "KwmQScan",
   "KwmQSubstr", "KwmQTrim", "KwmQSysfunc", "KwmQUpcase", "KwmQKCmpres", "KwmQKLeft",
   "KwmQKLowcase", "KwmQKScan", "KwmQKSubstr", "KwmQKTrim", "KwmQKUpcase", "KwmBquote",
   "KwmNrBquote", "KwmNrQuote", "KwmQuote", "KwmSuperq", "KwmStr", "KwmNrStr",
   "KwmAbort", "KwmCopy", "KwmDisplay", "KwmDo", "KwmTo", "KwmBy", "KwmUntil",
   "KwmWhile", "KwmEnd", "KwmGlobal", "KwmGoto", "KwmIf", "KwmThen", "KwmElse",
   "KwmInput", "KwmLet", "KwmLocal", "KwmMacro", "KwmMend", "KwmPut", "KwmReturn",
   "KwmSymdel", "KwmSyscall", "KwmSysexec", "KwmSyslput", "KwmSysmacdelete",
   "KwmSysmstoreclear", "KwmSysrput", "KwmWindow", "KwmInclude", "KwmList", "KwmRun" }

KwmStatTypes == {
   "KwmAbort", "KwmCopy", "KwmDisplay", "KwmDo", "KwmTo", "KwmBy", "KwmUntil",
   "KwmWhile", "KwmEnd", "KwmGlobal", "KwmGoto", "KwmIf", "KwmThen", "KwmElse",
   "KwmInput", "KwmLet", "KwmLocal", "KwmMacro", "KwmMend", "KwmPut", "KwmReturn",
   "KwmSymdel", "KwmSyscall", "KwmSysexec", "KwmSyslput", "KwmSysmacdelete",
   "KwmSysmstoreclear", "KwmSysrput", "KwmWindow", "KwmInclude", "KwmList", "KwmRun" }

KwmQuoteCallTypes == {
   "KwmBquote", "KwmNrBquote", "KwmNrQuote", "KwmQuote", "KwmSuperq", "KwmStr",
   "KwmNrStr" }

MnemonicTypes == {"KwLT","KwLE","KwEQ","KwIN","KwNE","KwGT","KwGE","KwAND","KwOR","KwNOT"}

\* the spelling(s) of a keyword type, upper case, without the leading % of macro keywords
KwSpellings(ty) ==
  CASE ty = "KwAllVar"      -> {"_ALL_"}
    [] ty = "KwNullDataset" -> {"_NULL_"}
    [] ty = "KwCorr"        -> {"CORR", "CORRESPONDING"}
    [] ty = "KwExecute"     -> {"EXEC", "EXECUTE"}
    [] ty = "KwmInclude"    -> {"INCLUDE", "INC"}
    [] ty \in KwmTypes      -> {UpStr(Split(SubSeq(ty, 4, Len(ty))))}
    [] ty \in KwTypes       -> {UpStr(Split(SubSeq(ty, 3, Len(ty))))}
    [] OTHER -> {}

\* keyword string (upper case) -> type, for open code; "" when not a keyword
KwTable == [ty \in KwTypes |-> KwSpellings(ty)]
KwLookup(up) ==
  LET S == {ty \in KwTypes : up \in KwTable[ty]} IN
  IF S = {} THEN "" ELSE CHOOSE ty \in S : TRUE
MKwTable == [ty \in KwmTypes |-> KwSpellings(ty)]
MKwLookup(up) ==
  LET S == {ty \in KwmTypes : up \in MKwTable[ty]} IN
  IF S = {} THEN "" ELSE CHOOSE ty \in S : TRUE
AllKw  == UNION {KwTable[ty] : ty \in KwTypes}
AllMKw == UNION {MKwTable[ty] : ty \in KwmTypes}

MaxKwLen  == 13   \* CORRESPONDING
MaxMKwLen == 14   \* SYSMSTORECLEAR

CommentTypes == {"CStyleComment", "PredictedCommentStat", "MacroComment"}
StrLitTypes == {"StringLiteral", "BitTestingLiteral", "DateLiteral", "DateTimeLiteral",
                "NameLiteral", "TimeLiteral", "HexStringLiteral"}
StrExprEndTypes == {"StringExprEnd", "BitTestingLiteralExprEnd", "DateLiteralExprEnd",
                    "DateTimeLiteralExprEnd", "NameLiteralExprEnd", "TimeLiteralExprEnd",
                    "HexStringLiteralExprEnd"}
NumTypes == {"IntegerLiteral", "FloatLiteral", "FloatExponentLiteral"}
\* suffix (upper case) of a literal type
LitSuffix(ty) ==
  CASE ty \in {"StringLiteral", "StringExprEnd"} -> ""
    [] ty \in {"BitTestingLiteral", "BitTestingLiteralExprEnd"} -> "B"
    [] ty \in {"DateLiteral", "DateLiteralExprEnd"} -> "D"
    [] ty \in {"DateTimeLiteral", "DateTimeLiteralExprEnd"} -> "DT"
    [] ty \in {"NameLiteral", "NameLiteralExprEnd"} -> "N"
    [] ty \in {"TimeLiteral", "TimeLiteralExprEnd"} -> "T"
    [] ty \in {"HexStringLiteral", "HexStringLiteralExprEnd"} -> "X"
=============================================================================
